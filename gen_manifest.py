#!/usr/bin/env python3
"""Generates /verif/MANIFEST.json from the table below (keeps the manifest valid at all times)."""
import json, subprocess

BROKER_NOTE = ("Trusted: the harness' own oracle code and serde round trip of the metadata snapshot; "
               "warp/HTTP routing is not exercised (the MemBrokerService methods behind the routes are called directly); "
               "hash-map iteration order is owned (getrandom override, fresh thread per state expansion) and sampled over hash seeds; "
               "bounded by depth / state caps reported in the evidence.")

CHECKS = {
    "C01": dict(engine="brokermc", cat="model_checking", ref="3/C01",
                technique="explicit-state BFS over the real MemBrokerService (snapshot -> API call -> snapshot), canonical state hashing with epoch rank compression, invariant on every state",
                text="Every broker state reachable by any operation sequence up to the stated depth (per host layout, ordered mode, migration limit) is visited exactly once and the slot-partition / importing-twin invariant is evaluated on the whole-cluster view and on every per-proxy view under limits 0..3. Exhaustive within the bound, executed on the real code, so no model-fidelity gap.",
                note=BROKER_NOTE),
    "C04": dict(engine="brokermc", cat="model_checking", ref="3/C04",
                technique="explicit-state BFS over the real broker; before/after comparison of every served per-proxy view on every edge",
                text="On every transition of the bounded state graph the per-proxy view served before and after is compared for every registered address under limits 0..2 (epoch monotone; strictly greater when anything else differs), plus global-epoch monotonicity and global=max(epochs) in every state.",
                note=BROKER_NOTE),
    "C06": dict(engine="brokermc", cat="model_checking", ref="3/C06",
                technique="explicit-state BFS over the real broker; every failover edge (every proxy in every reachable state) checked against the ownership-transfer oracle",
                text="Failover of every proxy is an alphabet symbol in every reachable state (including states produced by earlier failovers, replacements, migrations), so every fault point of every bounded history is enumerated; each such edge is judged by comparing whole-cluster views before/after under limits 0..3 (also when the call reports NO_AVAILABLE_RESOURCE after having applied the takeover); configurations include mid-migration clusters with every proxy in use and a constructed family of all link tables of <= 3 chunks over 3 hosts.",
                note=BROKER_NOTE),
    "C10": dict(engine="brokermc", cat="model_checking", ref="3/C10",
                technique="explicit-state BFS with the scaling alphabet (resize requests, every served commit, failovers, rebalance, delete-free-nodes) from 4/8/12-node clusters; state and edge oracles",
                text="All interleavings of resize requests, commits of any served migration, failovers and rebalances up to the depth/state cap; progress (something is always served and committable), refusal while migrating, balanced full partition at every quiescent state, precise chunk release, and a resize request is answered 'nothing to do' only when exactly the requested number of nodes own slots.",
                note=BROKER_NOTE + " The two storage phases of auto_scale_node_number are driven through hook H3 (the public method waits 30 s on TCP between them)."),
    "C12": dict(engine="brokermc", cat="model_checking", ref="3/C12",
                technique="explicit-state BFS over the real broker across host/proxy layouts; accounting invariant on every state, refusal/two-host/replacement-host oracles on every edge, panics caught",
                text="Every reachable state (bounded depth) of every layout in the configuration list is checked with the broker's own check_metadata plus an independent membership/free-pool accounting; every allocation edge is checked for atomic refusal, two-host chunks and replacement host choice. Start-state families (one exhaustive step each, 4-6 hash seeds per transition): all link tables of <= 3 chunks over 3 hosts x free-proxy vectors; a chunk put on one host by a real failover next to k-1 two-host chunks with free proxies on both hosts.",
                note=BROKER_NOTE),
    "C18": dict(engine="quorummc", cat="model_checking", ref="3/C18",
                technique="explicit-state BFS over the real broker failure-report API with snapshot-injected report ages, compared step by step with a reference model (address -> reporter -> age class)",
                text="All sequences (bounded depth, two start states per configuration) of reports, ageing steps, listings, registrations, removals and failed-marks for quorum 1..4 x ttl values; after every step the listing served by the real broker is compared with the reference model (listed => registered and >= quorum fresh distinct reporters; expired discarded; re-registration clears).",
                note="Report ages are injected by rewriting timestamps in the metadata snapshot (wide 100 s margins, per-step wall time asserted); only the 'only if' direction stated by the property is judged. Trusted: reference model in quorummc.rs."),
    "C15": dict(engine="enummc", cat="model_checking", ref="3/C15",
                technique="bounded-exhaustive enumeration of RESP values x split points x raw byte strings against a strict reference framer",
                text="All grammar values up to a nesting/width bound round-trip; every 1- and 2-cut split of every stream (single packets and pipelines) through the session codec, the hint-driven client decoder and the stateless multi decoder yields the one-piece packet sequence without consuming incomplete data; every byte string up to a length bound over the framing alphabet (plus all short suffixes after mid-packet prefixes) gets the verdict of a strict reference framer (valid => same value and length, prefix => None untouched, invalid => never a value); plus a length-header family: bulk and array headers at and beyond the edges of i32/u32/i64/u64/i128 (+-3), signs, leading zeros, non-ASCII digits, alone and followed by data that a wrapped-around length would make fit.",
                note="Trusted: the reference framer in enummc (written from the RESP specification; tolerant where leniency still yields the intended value: '+' sign in lengths, lone CR inside a line). Bounds: lengths / nesting stated in the evidence."),
    "C09": dict(engine="simnet", cat="model_checking", ref="3/C09",
                technique="bounded-exhaustive enumeration of keys (every brace placement) against a bit-wise CRC16/hash-tag reference, and of slot layouts x probe slots x multi-key shapes on one real proxy over a harness-owned network",
                text="Keys: every byte string up to the length bound over {'{','}','a','b',0x00,0xFF} plus published vectors, real generate_slot/same_slot vs a reference written from the Redis Cluster specification. Routing: every assignment of six boundary segments to {local node 1, local node 2, peer X, peer Y, nobody}, in three wire shapes (one entry per node with a range list; one entry per range in ascending / descending order), is installed through a real UMCTL SETCLUSTER on a real ForwardHandler and probed at the first/last slot of each segment (GET and CLUSTER KEYSLOT), all 16384 slots on a sample of layouts; oracle: local => executed on exactly that node's stand-in, peer => MOVED <slot> <peer>, nobody => error and no execution; 20 multi-key shapes (MGET/MSET/MSETNX/DEL/EXISTS/EVAL/BLPOP) must be refused unless all keys share a slot and then touch only the owner.",
                note="Trusted: reference CRC/hash-tag implementation (self-checked against published vectors); the in-harness Redis stand-in; the harness mini-session that feeds ForwardHandler::handle_cmd_ctx (handle_session itself is covered by C08)."),
    "C17": dict(engine="enummc+simnet", cat="model_checking", ref="3/C17",
                technique="bounded-exhaustive enumeration of control-plane values x both encodings x all single-token mutations against strict reference parsers",
                text="Generated ProxyClusterMeta / ReplicatorMeta / MigrationTaskMeta values are encoded by the real encoders; each encoding (plain, compressed) must decode to an equal value, and every single-token deletion, truncation and replacement (and 64 single-character corruptions of each compressed payload) is judged by a strict reference parser: not an encoding => the real parser must reject, an encoding of w => the real parser must return w. Also structural mutations (adjacent transposition, duplication, insertion of each of 9 keyword/number/address tokens at every position; every pair of mutations in the deepest tier) and EVERY token sequence up to 6-8 tokens over a vocabulary of 8-11 tokens behind 7 fixed prefixes (token-level analogue of all strings up to a length) are judged the same way. JOURNEY (simnet): in the fault-free executions of the C07 scripts every task descriptor the real coordinator parses out of a real proxy's UMCTL INFOMGR reply must be accepted by the real broker's commit_migration the first time.",
                note="Trusted: reference parsers in c17.rs (tolerant where the real grammar is deliberately open: unknown flags ignored, '+' in numbers, tokens after a complete task descriptor). Broker-produced SETCLUSTER/SETREPL messages travel through the real encoders and parsers in every C02/C07/C13 case."),
    "C20": dict(engine="simnet", cat="model_checking", ref="3/C20",
                technique="bounded-exhaustive enumeration of strategy x topology x write shape x read shape x value on real proxies with a storing Redis stand-in",
                text="Every combination of compression strategy {disabled, set_get_only, allow_all}, topology {owner proxy; non-owner proxy with active redirection, without and with UMFORWARD}, 11 write shapes (SET with/without EX/NX/PX XX, SETEX, PSETEX, SETNX, GETSET, MSET 1/3 pairs, MSETNX), value class (empty, 1 byte, all 256 byte values, RESP look-alike, incompressible 1 KiB / 8193 / 131072 / 200000 bytes (thorough up to 3 MB, around the 8 KiB and 128 KiB buffer sizes of the compression library), 300000 bytes of text, zeros, a zstd frame, OK, integer text; thorough: every single byte, 2-byte strings over a framing alphabet, lengths around powers of two) and read shape (GET, MGET with a missing key, GETSET) is executed; oracle: reads return the written bytes, the node stores a payload that zstd-decodes to the value with the original ttl, keys/options/non-string replies untouched, the 14 string-content commands refused and not forwarded under set_get_only, nothing altered under disabled.",
                note="Trusted: the Redis stand-in; zstd crate for the decode check. Values are a finite class menu, not all byte strings."),
    "C05": dict(engine="simnet+thrsched", cat="model_checking", ref="3/C05",
                technique="sequential: bounded-exhaustive enumeration of SETCLUSTER/SETREPL sequences on a real proxy against a two-register reference model; concurrent: preemption-bounded exhaustive DFS over schedules of real threads at cfg-guarded scheduling points in set_meta / update_replicators",
                text="SEQUENTIAL: every sequence of length <= 3 (thorough 4) over 29 messages (both kinds x epoch 1..3 x force x two contents, wrong-host and compressed variants) on a fresh real ForwardHandler, plus a foreign-host family (12 local-node addresses that resemble the proxy's own host - announce host as prefix / suffix / substring, other spellings - alone or behind an own-host node, each alone, after and before every base message); after every message the reply, UMCTL GETEPOCH, two routing probes and UMCTL INFOREPL must equal the reference model. CONCURRENT: 2-3 writer threads with 1-2 messages each (same kind) plus an observer (get_epoch then routing) run under a cooperative scheduler; all schedules with <= 2 (thorough 3) preemptions at the atomic-level points; oracle: the installed state is that of the accepted message with the highest epoch, the newest message is accepted, every rejected message is stale w.r.t. an accepted one, the observer never sees routing older than the epoch it read.",
                note="The concurrent oracle deliberately does not demand linearizability of the accept/reject replies: update_replicators fails fast on an epoch that is still being installed (by design), which is not a violation of the property as long as every rejected message is superseded by an accepted one. Trusted: reference model, scheduler (sched.rs), textual hook-coverage scan (a pass is refused when an access to the shared fields has no scheduling point); only SeqCst interleavings are explored (checked textually)."),
    "C11": dict(engine="thrsched", cat="model_checking", ref="3/C11",
                technique="preemption-bounded exhaustive DFS over schedules of real threads (senders, migration controller, replier) at cfg-guarded scheduling points before every shared-memory access of the blocking queue",
                text="The real BlockingMap / TaskBlockingQueue / BlockingHandle / BiAtomicU32 run with harness inner and re-dispatch senders under a cooperative scheduler; scenarios: 1-2 senders (1-2 tasks, hints computed like the migrating task does, or NotBlocking), also on a backend whose queue was dropped and re-created before (a node that left and came back: sender and controller must still share one queue), a controller (start_blocking, wait for blocking_done, hold, drop) and a replier; every schedule with <= 2 (thorough 3) preemptions is executed; oracle: no task reaches the backend sender between the moment blocking_done() was observed and the handle drop, every task is dispatched exactly once (backend, re-dispatch or answered), nothing stays queued, no deadlock/livelock.",
                note="Waiting loops are modelled as blocking on precise events (so spinning does not unroll); only SeqCst interleavings at the hooked points are explored (orderings and point coverage are checked textually on every run; a pass is refused if coverage is incomplete). crossbeam_channel and DashMap internals are treated as atomic operations."),
    "C16": dict(engine="hostile", cat="model_checking", ref="3/C16",
                technique="bounded-exhaustive enumeration of hostile inputs (raw bytes, length prefixes, nesting, truncations, every command x extreme arguments, control messages with extreme numbers) executed on the real decoder and handler in a watched child process with a counting allocator",
                text="Every input of four finite families (incl. keys, values, command names and sub-commands of 90..130 ASCII bytes followed by 2-/3-/4-byte UTF-8 characters) is decoded by the real session codec and handled through the real per-request session path (Session::handle_cmd with slow-log sampling on, ForwardHandler, handle_slowlog; metadata unset and set) on a 2 MiB stack inside a child process; per input the parent records panic, process death (abort, stack overflow, allocator refusal above 1 GiB), peak extra memory (<= 64*len + 4 MiB), wall time (3 s watchdog, 2 s slow limit), reply within 100 virtual seconds or connection close, and that a second connection's PING is still answered.",
                note="Resource clauses are measured with fixed constants on bounded families - evidence for the explored inputs, not a proof for all lengths. Blocking pops are judged against their own timeout. Trusted: counting allocator, watchdog, Redis stand-in."),
    "C08": dict(engine="pollmc+sessmc", cat="fault_enumeration", ref="3/C08",
                technique="deviation-bounded exhaustive enumeration of environment answers (Pending / Err / EOF / connect failure at every connect, poll_ready, start_send, poll_flush, poll_next) to the real backend connection handling with real CmdCtx tasks; plus exhaustive enumeration of request-byte splits x arrival/completion interleavings x completion kinds through the real handle_session over loopback TCP",
                text="BACKEND LEVEL: the real sender stack (gen_sender_factory: CachedSender, RoundRobinSenderGroup, RecoverableBackendNode, handle_backend/handle_conn with retry, ReplyCommitHandler) runs over a scripted connection that answers every request with the id found in the request bytes; scenarios: batching {disabled, fixed, dynamic} x low flush interval {0, 1h} x 1-2 connections x pipelines of 1-3 requests (late submission) x one vanished client; deviations also include a stalled backend (nothing delivered for 7 s of virtual time = more than two read-timeout periods, then everything in order) and scenarios whose late request joins the connection 3.5 s after the first (between two timeout ticks); every script with <= 4 (thorough 5) deviations is executed to completion; oracle: every request gets exactly one result, a successful result carries the request's own id and only if the backend received its bytes, nothing stays unanswered. SESSION LEVEL: the real handle_session + Session (CmdCtx and reply channel) over a loopback TcpStream with the harness as CmdCtxHandler; pipelines of 1-3 (thorough 4) requests cut into 2 chunks at every byte offset and 3 chunks at chosen offset pairs, every interleaving of chunk arrival and reply completion, every completion order x kind vector {reply, error, CmdCtx dropped}; after every event the wire holds exactly the replies of the longest answered prefix, each belonging to its own request (an error reply for a failed or dropped one).",
                note="Session level: socket timing is not controlled (each step waits for its expected observable, deadline 20 s, then reads 2 ms more to catch early bytes). The scripted backend stream ends after an error item like tokio_util's FramedRead. Trusted: scripted environment, driver time policy (1 ms / 1 s idle advances)."),
    "C02": dict(engine="simnet", cat="model_checking", ref="3/C02",
                technique="explicit enumeration of reachable broker states x encoding x migration limit x handshake phase; real coordinator sync onto fresh real proxies; exhaustive routing probes (start proxy x boundary slots, all 16384 slots on a sample) against the broker-designated owner",
                text="Every distinct broker state (routing-relevant projection) reachable by operation sequences up to the depth bound on 3 hosts x 2 proxies is combined with {plain, compressed} SETCLUSTER, migration_limit {0,1} and the handshake phases A (nothing served), C (PRECHECK+PRESWITCH served, scan held), D (all served); fresh real proxies are synchronised by the real ProxyMetaRespSynchronizer until they report the broker's epoch; every live member proxy x every probe slot issues a SET following MOVED; oracle from the broker view: executed on exactly the designated master (source in A, destination in C/D), <=1 redirection (<=3 while migrating), the key is never seen by an unrelated node.",
                note="Trusted: Redis stand-in, harness mini-session, phase control through gating of UMCTL PRECHECK/PRESWITCH/FINALSWITCH and SCAN. Hash-order dependent choices (bystander MOVED target) are accepted either way."),
    "C14": dict(engine="simnet", cat="model_checking", ref="3/C14",
                technique="same state x encoding x limit x phase enumeration as C02, x NODES format version; CLUSTER NODES and CLUSTER SLOTS of every member proxy parsed and compared with each other and with routing probes",
                text="For every case of the C02 enumeration and every live member proxy the real CLUSTER NODES (V1 and V2 format) and CLUSTER SLOTS replies are parsed: every covered slot appears under exactly one node line / one SLOTS entry, both commands give the same slot->address map with consistent node ids; for every probe slot the advertised node equals what routing does from that proxy (itself iff executed locally, else the MOVED target); migrating slots are advertised at the source in phase A and at the destination in C/D on the two involved proxies, at either of them on bystanders. Every migrating state is additionally walked A -> C -> D on the same proxies (topology and routing probed in each phase), so state kept between topology queries is exercised.",
                note="Same trusted base as C02."),
    "C13": dict(engine="simnet", cat="fault_enumeration", ref="3/C13",
                technique="enumeration of operation histories x crash point (restart from any prefix snapshot) x distribution of views held by proxies x reachability; the production recover_epoch path over loopback TCP responders; adoption replayed on real proxies with real coordinator sync rounds",
                text="For every history up to the length bound, every prefix state as the snapshot the broker restarts from, and a systematic family of proxy-view assignments (all latest, all at the crash point, each proxy alone ahead, fresh, unreachable, odd proxies one step behind) the real MemBrokerService::recover_epoch() is executed (it dials the proxies; responders answer UMCTL GETEPOCH); oracle: every served view has an epoch strictly above every reachable proxy's epoch and every epoch in the restored snapshot, unreachable proxies are reported; on a subset, real proxies pre-loaded with their views through the real sync path adopt the recovered view within two sync rounds.",
                note="Uses real loopback sockets on 127.0.0.1-3:7000-7001 (uncontrolled timing, controlled data; cases run sequentially). The view assignment family is systematic but not the full product of all assignments. The hook proposed in the property (caller-supplied max epoch) is not used: the production path is exercised as is."),
    "C03": dict(engine="simnet", cat="model_checking", ref="3/C03",
                technique="delay-bounded exhaustive enumeration of message-level schedules (stateless DFS over a harness-owned network) of real proxies during a live migration, with a brute-force linearizability oracle over replies and final store contents",
                text="Scenarios: 4->8 node scale-out, one focus migration between two real proxies (real broker, real coordinator rounds), two clients with 1-2 commands {GET,SET,DEL,INCR,EXISTS,EXPIRE,MSETNX,EVAL} on two keys that share a migration lock slot (plus one key outside the range) entering at the source, destination or a bystander proxy at different moments of the scan (a grid of start points, plus a dense family: one deleting command through the destination started after every number 0..14 of served requests, so that it lands in every gap between the scan's SCAN, PTTL+DUMP, RESTORE and DEL). Every proxy->proxy and proxy->Redis request waits at a gate owned by the explorer; all schedules with at most d deferrals (d=2 quick, 3 thorough; wide command-pair family d-1) are run to completion including the commit; each history (invocation/response steps, replies) together with the final contents of source and destination must admit a sequential explanation from the initial contents; keys of the range must be gone from the source. The scenarios with a push-path command (DEL, EXPIRE) are additionally explored under a slow-scanner default schedule (a pending SCAN is served only when nothing else is pending), which brings three-reordering races of push, scan and client inside the two-deferral bound.",
                note="Bound: a deferral lasts 16 explorer steps; in the quick tier a request can be deferred only while something else is enabled, in the thorough tier also when it is alone (time then passes in 1 ms steps); 1 ms timer steps otherwise only when nothing else is enabled. Trusted: the Redis stand-in (DUMP/RESTORE/BUSYKEY, EXISTS, scripts), real-time order by explorer step. The 2 clients x 2 keys alphabet is the whole data space explored."),
    "C07": dict(engine="simnet", cat="model_checking", ref="3/C07",
                technique="fault-plan enumeration (stateless DFS over global call indices) of real coordinator rounds against the real broker and real proxies on a harness-owned network, with invariant and convergence oracles",
                text="Scripts (create cluster; scale-out with migration; migration source / destination proxy dies mid-migration; a cluster member dies while no spare proxy is registered and a spare registers two rounds later (failover retried each round); scale-in) run the real coordinator loops (metadata sync, migration-state sync, failure detection, failure handling) against the real in-memory broker and 6 real proxies. Every outgoing coordinator call (broker or proxy) passes one gate and gets a global index; all plans of <= d faults (d=1 quick, 2 thorough with the second fault within 30 calls) in the fault window are executed: request lost, reply lost after execution, duplicated, delayed and delivered stale, coordinator crash before the call, target proxy restarted empty, a second coordinator running a whole pass between two calls, the next admin operation applied between two calls. Oracles: accepted SETCLUSTER/SETREPL epochs strictly increase per proxy incarnation; GETEPOCH never decreases; every task committed at most once and a refused commit leaves the store unchanged; in the committing round the destination is updated before the source (its SETCLUSTER is issued first AND has been answered when the source request is issued); after 4 fault-free passes every registered, non-failed, reachable proxy reports the broker's epoch and holds (UMCTL INFO, canonicalised) exactly what a fresh proxy fed from the broker holds; no finished migration stays uncommitted.",
                note="Interleaving of two coordinators is at whole-pass granularity (a pass of B between any two calls of A), not call-by-call. Failure quorum 1. Trusted: Redis stand-in; migration data transfer itself is C03's subject."),
    "C19": dict(engine="simnet", cat="model_checking", ref="3/C19",
                technique="enumeration of PTTL reply classes x the three transfer paths on complete real migrations between real proxies, with the source stand-in scripted; observation of the RESTORE ttl argument at the destination stand-in",
                text="For each transfer path (background scan; on-demand pull triggered by a read at the destination proxy while the scan is held; push triggered by a deleting command => UMSYNC) and each PTTL reply class {-2,-1,0,1,2,999,2^31,2^63-1,2^63,'abc','','+5','-0'} a full migration (real broker, real coordinator sync, 4 real proxies) is run and the ttl argument of the RESTORE that reaches the destination is judged: -1 => 0, p>=1 => 1..p, 0 => >=1 (never the value RESTORE reads as persistent), -2 => no transfer, malformed => no panic; plus real TTL round trips (persistent, 400 ms, 5 s, 100 s) checked by PTTL at the destination, plus PTTL replies {-1,1,2,999} from a source whose PTTL/DUMP answers take 12 ms of real and of virtual time (longer than the key has left) on all three paths. BATCH FAMILY: 2-3 (thorough 4) keys in one scan batch, each answering from {(-2,nil),(-2,payload),(-1,payload),(-1,nil),(5000,payload),(7,nil)} = (PTTL, DUMP) - the disagreeing pairs are keys that expire / vanish / appear between the pipelined PTTL and DUMP - every combination; each RESTORE reaching the destination is judged against the PTTL answer of its own key.",
                note="Interleavings with client traffic are the subject of C03; here each case is one deterministic run. Trusted: Redis stand-in (RESTORE/PTTL semantics), phase control by holding SCAN."),
}

NOT_YET = {
    "C02": "check not built yet in this round (planned: simnet engine, DESIGN 3/C02)",
    "C03": "check not built yet in this round (planned: simnet engine, DESIGN 3/C03)",
    "C05": "check not built yet in this round (planned: simnet + thrsched, DESIGN 3/C05)",
    "C07": "check not built yet in this round (planned: simnet fault enumeration, DESIGN 3/C07)",
    "C08": "check not built yet in this round (planned: pollmc, DESIGN 3/C08)",
    "C09": "check not built yet in this round (planned: enum, DESIGN 3/C09)",
    "C11": "check not built yet in this round (planned: thrsched, DESIGN 3/C11)",
    "C13": "check not built yet in this round (planned: brokermc + loopback responders, DESIGN 3/C13)",
    "C14": "check not built yet in this round (planned: simnet, DESIGN 3/C14)",
    "C15": "check not built yet in this round (planned: enum, DESIGN 3/C15)",
    "C16": "check not built yet in this round (planned: enum in watched child, DESIGN 3/C16)",
    "C17": "check not built yet in this round (planned: enum, DESIGN 3/C17)",
    "C18": "check not built yet in this round (planned: brokermc quorum variant, DESIGN 3/C18)",
    "C19": "check not built yet in this round (planned: simnet + enum, DESIGN 3/C19)",
    "C20": "check not built yet in this round (planned: simnet, DESIGN 3/C20)",
}

ENGINES = {
    "brokermc": ("harness/src/bin/brokermc.rs", "explicit-state BFS over the real in-memory broker"),
    "quorummc": ("harness/src/bin/quorummc.rs", "explicit-state BFS over the broker failure-report API against a reference model"),
    "enummc": ("harness/src/bin/enummc/main.rs", "bounded-exhaustive input enumeration against reference models"),
    "hostile": ("harness/src/bin/hostile.rs", "bounded-exhaustive hostile-input sweep in a watched child process"),
    "thrsched": ("harness/src/bin/thrsched.rs", "preemption-bounded DFS over real threads at cfg-guarded scheduling points"),
    "pollmc": ("harness/src/bin/pollmc.rs", "deviation-bounded enumeration of environment answers to a hand-polled future"),
    "sessmc": ("harness/src/bin/sessmc.rs", "exhaustive enumeration of byte splits x arrival/completion interleavings through the real handle_session over loopback TCP"),
    "simnet": ("harness/src/bin/simnet/main.rs", "deviation-bounded DFS over a deterministic simulation of real proxies/coordinator/broker"),
}


def main():
    commits = subprocess.run(["git", "-C", "/repo", "log", "--format=%h %s"], capture_output=True, text=True).stdout.splitlines()
    hook_commits = [c.split()[0] for c in commits if c.split(" ", 1)[1].startswith("verif hook")]
    checks = []
    for pid in sorted(CHECKS):
        c = CHECKS[pid]
        checks.append({
            "property_id": pid,
            "quick_cmd": f"./check {pid} --tier quick",
            "thorough_cmd": f"./check {pid} --tier thorough",
            "evidence_file": f"/verif/evidence/{pid}.json",
            "replay_cmd_template": f"./check {pid} --replay {{path}}",
            "engine": c["engine"],
            "level_claimed": {"category": c["cat"], "text": c["text"], "design_ref": c["ref"]},
            "level_note": c["note"],
            "technique": c["technique"],
        })
    used = sorted({e for c in CHECKS.values() for e in c["engine"].split("+")})
    m = {
        "version": 1,
        "setup_cmd": "cd /verif/harness && CARGO_NET_OFFLINE=true cargo build --release --offline",
        "hooks": {
            "guard": "cargo feature `verif` of the undermoon crate",
            "enable": "the harness crate depends on undermoon = { path = \"/repo\", features = [\"verif\"] }; every check runs `cargo build --release --offline` in /verif/harness first",
            "baseline_off_cmd": "cd /repo && cargo test --workspace --no-fail-fast --offline",
            "source_commits": hook_commits,
            "add_only": True,
        },
        "engines": [
            {"name": e, "path": ENGINES[e][0], "kind_free_text": ENGINES[e][1],
             "serves_properties": sorted(p for p, c in CHECKS.items() if e in c["engine"].split("+"))}
            for e in used
        ],
        "checks": checks,
        "not_applicable": [{"property_id": p, "reason": r} for p, r in sorted(NOT_YET.items()) if p not in CHECKS],
        "notes": "See DESIGN.md. `check` runs the cheap engines (C02 C08 C09 C14 C15 C16 C17 C19 C20) one exploration level higher in both tiers (--boost 1): their quick tier uses the former thorough bounds. All simnet/pollmc checks feed requests through the production per-request session path as indexed packets and exchange encode()d bytes on connections. Known findings / fixed defects: KNOWN_FINDINGS.json. Exit code 2 of a check = machinery error, never a verdict.",
    }
    json.dump(m, open("/verif/MANIFEST.json", "w"), indent=1)
    print("checks:", len(checks), "not_applicable:", len(m["not_applicable"]))


if __name__ == "__main__":
    main()
