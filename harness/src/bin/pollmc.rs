//! pollmc — C08 backend level: the real backend connection handling (`handle_backend` /
//! `handle_conn`, retry, `RecoverableBackendNode`, round-robin group) with real `CmdCtx` tasks and
//! the real `ReplyCommitHandler`, over a scripted connection whose every environment answer
//! (connect, poll_ready, start_send, poll_flush, poll_next) can deviate from the default.
//! All scripts with at most d deviations are enumerated (deviation-bounded DFS).

use futures::{FutureExt, Sink, Stream};
use serde_json::json;
use std::collections::{BTreeMap, VecDeque};
use std::net::SocketAddr;
use std::future::Future;
use std::pin::Pin;
use std::sync::{Arc, Mutex};
use std::task::{Context, Poll};
use std::time::Duration;
use undermoon::common::batch::{BatchStats, BatchStrategy};
use undermoon::common::track::TrackedFutureRegistry;
use undermoon::protocol::{Array, BulkStr, Resp, RespPacket, RespVec};
use undermoon::proxy::backend::{BackendError, ConnFactory, ConnSink, ConnStream, CreateConnResult};
use undermoon::proxy::command::{new_command_pair, CmdReplyReceiver, Command};
use undermoon::proxy::reply::ReplyCommitHandlerFactory;
use undermoon::proxy::sender::{gen_sender_factory, CmdTaskSender, CmdTaskSenderFactory};
use undermoon::proxy::session::CmdCtx;
use vh::report::*;
use vh::sim::{proxy_config_pub, run_sim, ProxyOpts};

#[derive(Clone, Copy, Debug, PartialEq, Eq, PartialOrd, Ord)]
enum Call {
    Connect,
    Ready,
    Send,
    Flush,
    Next,
}

#[derive(Clone, Copy, Debug, PartialEq, Eq, PartialOrd, Ord)]
enum Dev {
    Pending,
    Err,
    Eof,
    /// the backend stalls: from this poll on the connection delivers nothing for 7 s of virtual
    /// time (more than two read-timeout periods of 3 s), then answers everything it received, in order
    Stall,
}

const STALL_MS: u64 = 7000;

fn devs_for(c: Call) -> Vec<Dev> {
    match c {
        Call::Connect => vec![Dev::Err],
        Call::Ready => vec![Dev::Pending, Dev::Err],
        Call::Send => vec![Dev::Err],
        Call::Flush => vec![Dev::Pending, Dev::Err],
        Call::Next => vec![Dev::Pending, Dev::Err, Dev::Eof, Dev::Stall],
    }
}

#[derive(Default)]
struct Conn {
    written: VecDeque<RespPacket>,
    replies: VecDeque<RespPacket>,
}

struct Env {
    verbose: bool,
    calls: usize,
    trace: Vec<Call>,
    script: BTreeMap<usize, Dev>,
    conns: Vec<Conn>,
    received: Vec<(usize, String)>, // (conn, request id) the backend really got
}

impl Env {
    fn step(&mut self, c: Call) -> Option<Dev> {
        let i = self.calls;
        self.calls += 1;
        self.trace.push(c);
        let d = self.script.get(&i).cloned().filter(|d| devs_for(c).contains(d));
        if self.verbose {
            eprintln!("  env#{} {:?} -> {:?} (conns {})", i, c, d, self.conns.len());
        }
        d
    }
}

fn req_id(p: &RespPacket) -> String {
    match p.to_resp_vec() {
        Resp::Arr(Array::Arr(v)) => v.get(1).map(|e| match e {
            Resp::Bulk(BulkStr::Str(s)) => String::from_utf8_lossy(s).to_string(),
            _ => "?".into(),
        }),
        _ => None,
    }
    .unwrap_or_else(|| "?".into())
}

struct ScriptedSink {
    env: Arc<Mutex<Env>>,
    conn: usize,
}

fn io_err() -> BackendError {
    BackendError::Io(std::io::Error::new(std::io::ErrorKind::BrokenPipe, "scripted"))
}

impl Sink<RespPacket> for ScriptedSink {
    type Error = BackendError;
    fn poll_ready(self: Pin<&mut Self>, cx: &mut Context<'_>) -> Poll<Result<(), BackendError>> {
        let d = self.env.lock().unwrap().step(Call::Ready);
        match d {
            Some(Dev::Pending) => {
                cx.waker().wake_by_ref();
                Poll::Pending
            }
            Some(Dev::Err) => Poll::Ready(Err(io_err())),
            _ => Poll::Ready(Ok(())),
        }
    }
    fn start_send(self: Pin<&mut Self>, item: RespPacket) -> Result<(), BackendError> {
        let mut e = self.env.lock().unwrap();
        if let Some(Dev::Err) = e.step(Call::Send) {
            return Err(io_err());
        }
        let c = self.conn;
        e.conns[c].written.push_back(item);
        Ok(())
    }
    fn poll_flush(self: Pin<&mut Self>, cx: &mut Context<'_>) -> Poll<Result<(), BackendError>> {
        let mut e = self.env.lock().unwrap();
        match e.step(Call::Flush) {
            Some(Dev::Pending) => {
                cx.waker().wake_by_ref();
                return Poll::Pending;
            }
            Some(Dev::Err) => return Poll::Ready(Err(io_err())),
            _ => {}
        }
        // the backend receives what was written and answers every request with the id found in
        // the request bytes (a real echo, not an index counter)
        let c = self.conn;
        while let Some(p) = e.conns[c].written.pop_front() {
            let id = req_id(&p);
            if e.verbose {
                eprintln!("  backend conn {} received {}", c, id);
            }
            e.received.push((c, id.clone()));
            e.conns[c].replies.push_back(vh::sim::wire_reply(Resp::Bulk(BulkStr::Str(id.into_bytes()))));
        }
        Poll::Ready(Ok(()))
    }
    fn poll_close(self: Pin<&mut Self>, _cx: &mut Context<'_>) -> Poll<Result<(), BackendError>> {
        Poll::Ready(Ok(()))
    }
}

struct ScriptedStream {
    env: Arc<Mutex<Env>>,
    conn: usize,
    /// like tokio_util's FramedRead: after an error item the stream is over
    errored: bool,
    /// a stalled backend: nothing is delivered until this timer fires (it also wakes the reader)
    stalled: Option<Pin<Box<tokio::time::Sleep>>>,
}

impl Stream for ScriptedStream {
    type Item = Result<RespPacket, BackendError>;
    fn poll_next(mut self: Pin<&mut Self>, cx: &mut Context<'_>) -> Poll<Option<Self::Item>> {
        if self.errored {
            return Poll::Ready(None);
        }
        if let Some(t) = self.stalled.as_mut() {
            match t.as_mut().poll(cx) {
                Poll::Pending => return Poll::Pending,
                Poll::Ready(()) => self.stalled = None,
            }
        }
        let env = self.env.clone();
        let mut e = env.lock().unwrap();
        let c = self.conn;
        let has = !e.conns[c].replies.is_empty();
        if !has {
            // nothing to decide: no reply is available, the default (and only) answer is Pending
            return Poll::Pending;
        }
        match e.step(Call::Next) {
            Some(Dev::Pending) => {
                cx.waker().wake_by_ref();
                Poll::Pending
            }
            Some(Dev::Err) => {
                self.errored = true;
                Poll::Ready(Some(Err(io_err())))
            }
            Some(Dev::Eof) => Poll::Ready(None),
            Some(Dev::Stall) => {
                drop(e);
                let mut t = Box::pin(tokio::time::sleep(Duration::from_millis(STALL_MS)));
                let _ = t.as_mut().poll(cx);
                self.stalled = Some(t);
                Poll::Pending
            }
            None => Poll::Ready(Some(Ok(e.conns[c].replies.pop_front().unwrap()))),
        }
    }
}

struct ScriptedFactory {
    env: Arc<Mutex<Env>>,
}

impl ConnFactory for ScriptedFactory {
    type Pkt = RespPacket;
    fn create_conn(&self, _addr: SocketAddr) -> Pin<Box<dyn futures::Future<Output = CreateConnResult<Self::Pkt>> + Send>> {
        let env = self.env.clone();
        Box::pin(async move {
            let conn = {
                let mut e = env.lock().unwrap();
                if let Some(Dev::Err) = e.step(Call::Connect) {
                    return Err(io_err());
                }
                e.conns.push(Conn::default());
                e.conns.len() - 1
            };
            let sink: ConnSink<RespPacket> = Box::pin(ScriptedSink { env: env.clone(), conn });
            let stream: ConnStream<RespPacket> = Box::pin(ScriptedStream { env, conn, errored: false, stalled: None });
            Ok((sink, stream))
        })
    }
}

#[derive(Clone, Debug)]
struct Scenario {
    batch: BatchStrategy,
    low_flush_ns: u64,
    conn_num: usize,
    tasks: usize,
    late: usize,         // how many of the tasks are submitted only after the first round
    gone: Option<usize>, // index of the task whose client disappears before the first poll
    /// the late tasks are submitted only after this much virtual time (0 = right after the first
    /// round); 3500 ms puts them between the first and the second read-timeout tick
    late_delay_ms: u64,
}

impl Scenario {
    fn label(&self) -> String {
        format!("{:?}/low={}ns/conns={}/tasks={}(late {}{})/client-gone={:?}", self.batch, self.low_flush_ns, self.conn_num, self.tasks, self.late, if self.late_delay_ms > 0 { format!(" after {} ms", self.late_delay_ms) } else { String::new() }, self.gone)
    }
}

struct RunOut {
    trace: Vec<Call>,
    results: Vec<Option<Result<String, String>>>, // per task: Ok(reply text) / Err(error) / None = silence
    received: Vec<(usize, String)>,
}

async fn run_script(sc: &Scenario, script: &BTreeMap<usize, Dev>) -> RunOut {
    let env = Arc::new(Mutex::new(Env { verbose: std::env::var("POLLMC_VERBOSE").is_ok(), calls: 0, trace: vec![], script: script.clone(), conns: vec![], received: vec![] }));
    let opts = ProxyOpts { backend_conn_num: sc.conn_num, batch: sc.batch, low_flush_ns: sc.low_flush_ns, ..Default::default() };
    let mut cfg = proxy_config_pub("127.0.0.1:7000", &opts);
    cfg.backend_timeout = Duration::from_secs(3);
    let factory = gen_sender_factory(Arc::new(cfg), Arc::new(ReplyCommitHandlerFactory::default()), Arc::new(ScriptedFactory { env: env.clone() }), Arc::new(TrackedFutureRegistry::default()), Arc::new(BatchStats::default()));
    let sender = factory.create("127.0.0.1:6000".to_string());
    let mut receivers: Vec<Option<CmdReplyReceiver>> = vec![];
    let mut ctxs: VecDeque<(usize, CmdCtx)> = VecDeque::new();
    for i in 0..sc.tasks {
        let r: RespVec = Resp::Arr(Array::Arr(vec![Resp::Bulk(BulkStr::Str(b"GET".to_vec())), Resp::Bulk(BulkStr::Str(format!("id-{}", i).into_bytes()))]));
        let cmd = Command::new(vh::sim::to_session_packet(r));
        let (s, rx) = new_command_pair(&cmd);
        ctxs.push_back((i, CmdCtx::new(cmd, s, i, false)));
        receivers.push(Some(rx));
    }
    let mut results: Vec<Option<Result<String, String>>> = vec![None; sc.tasks];
    if let Some(g) = sc.gone {
        if g < sc.tasks {
            receivers[g] = None; // the client has gone: nobody will ever read this reply
            results[g] = Some(Err("client gone".into()));
        }
    }
    // let the backend tasks connect first (as in production, requests arrive on a live connection)
    for _ in 0..4 {
        tokio::task::yield_now().await;
    }
    let early = sc.tasks - sc.late.min(sc.tasks);
    let mut idle_rounds = 0;
    let t_start = tokio::time::Instant::now();
    let mut late_done = false;
    for round in 0..60 {
        let late_due = round >= 1 && !late_done && t_start.elapsed() >= Duration::from_millis(sc.late_delay_ms);
        if late_due {
            late_done = true;
        }
        let mut n_submit = if round == 0 { early } else if late_due { sc.late } else { 0 };
        while n_submit > 0 {
            if let Some((i, ctx)) = ctxs.pop_front() {
                if sender.send(ctx).is_err() {
                    // RecoverableBackendNode has answered the task itself
                    let _ = i;
                }
            }
            n_submit -= 1;
        }
        let before = env.lock().unwrap().calls;
        for _ in 0..6 {
            tokio::task::yield_now().await;
        }
        for (i, r) in receivers.iter_mut().enumerate() {
            if let Some(rx) = r {
                if let Some(res) = rx.now_or_never() {
                    results[i] = Some(match res {
                        Ok(reply) => {
                            let (_, packet, _) = (*reply).into_inner();
                            match packet.into_resp_vec() {
                                Resp::Bulk(BulkStr::Str(s)) => Ok(String::from_utf8_lossy(&s).to_string()),
                                Resp::Error(e) => Err(String::from_utf8_lossy(&e).to_string()),
                                other => Err(format!("{:?}", other)),
                            }
                        }
                        Err(e) => Err(format!("{:?}", e)),
                    });
                    *r = None;
                }
            }
        }
        if results.iter().all(|r| r.is_some()) && ctxs.is_empty() {
            break;
        }
        if env.lock().unwrap().calls == before {
            idle_rounds += 1;
            // nothing happens without time: flush timer (1 ms), reconnect delay (1 s), backend timeout (3 s)
            let step = if idle_rounds < 3 { 1 } else { 1000 };
            tokio::time::advance(Duration::from_millis(step)).await;
        } else {
            idle_rounds = 0;
        }
    }
    let e = env.lock().unwrap();
    RunOut { trace: e.trace.clone(), results, received: e.received.clone() }
}

fn judge(sc: &Scenario, out: &RunOut) -> Vec<(String, String)> {
    let mut v = vec![];
    for (i, r) in out.results.iter().enumerate() {
        let me = format!("id-{}", i);
        match r {
            None => v.push(("request-got-no-reply".to_string(), format!("task {} never received a result (backend saw {:?})", i, out.received))),
            Some(Ok(s)) => {
                if s != &me {
                    v.push(("reply-of-another-request".to_string(), format!("task {} (GET {}) received the reply elicited by `{}`", i, me, s)));
                }
                if !out.received.iter().any(|(_, id)| id == &me) {
                    v.push(("reply-without-exchange".to_string(), format!("task {} got a successful reply although the backend never received its bytes", i)));
                }
            }
            Some(Err(_)) => {}
        }
    }
    let _ = sc;
    v
}

struct Acc {
    scripts: usize,
    env_calls: usize,
    outcomes: BTreeMap<String, usize>,
    viol: Vec<Violation>,
}

fn explore(sc: &Scenario, depth: usize, acc: &mut Acc) {
    // DFS over deviation scripts: a script is extended only at call indices after its last deviation
    let mut stack: Vec<BTreeMap<usize, Dev>> = vec![BTreeMap::new()];
    while let Some(script) = stack.pop() {
        let sc2 = sc.clone();
        let s2 = script.clone();
        let out = run_sim(async move { run_script(&sc2, &s2).await });
        acc.scripts += 1;
        acc.env_calls += out.trace.len();
        let sig = format!("{:?}", out.results.iter().map(|r| match r { None => "silence".to_string(), Some(Ok(_)) => "ok".to_string(), Some(Err(e)) => format!("err({})", e.split(':').next().unwrap_or("")) }).collect::<Vec<_>>());
        *acc.outcomes.entry(sig).or_default() += 1;
        for (k, d) in judge(sc, &out) {
            let key = format!("{}:{}", k, if sc.gone.is_some() { "with-a-vanished-client" } else { "all-clients-present" });
            if acc.viol.iter().filter(|x| x.key == key).count() < 1 {
                acc.viol.push(Violation { key, desc: format!("[{}] script {:?}: {}", sc.label(), script, d), replay: json!({"batch": format!("{:?}", sc.batch), "low_flush_ns": sc.low_flush_ns, "conn_num": sc.conn_num, "tasks": sc.tasks, "late": sc.late, "gone": sc.gone, "late_delay_ms": sc.late_delay_ms, "script": script.iter().map(|(k, v)| (k.to_string(), format!("{:?}", v))).collect::<BTreeMap<_, _>>()}) });
            }
        }
        if script.len() < depth {
            let last = script.keys().next_back().map(|k| k + 1).unwrap_or(0);
            for (i, c) in out.trace.iter().enumerate() {
                if i < last {
                    continue;
                }
                for d in devs_for(*c) {
                    let mut s = script.clone();
                    s.insert(i, d);
                    stack.push(s);
                }
            }
        }
    }
}

fn main() {
    let cli = Cli::parse();
    std::panic::set_hook(Box::new(|_| {}));
    let mut rep = Report::new(&cli, "fault_enumeration");
    rep.assumptions = vec![
        "backend level only: the scripted connection delivers to the backend exactly what was flushed and answers every request with the id found in the request bytes; handle_session's ordering is not exercised here".into(),
        "BatchState consults std::time::Instant; low_flush_interval is pinned to 0 (always flush) or 1 h (never by wall time) so the wall clock cannot influence a run".into(),
    ];
    if let Some(path) = &cli.replay {
        // re-run one recorded (scenario, script) verbosely
        let body: serde_json::Value = serde_json::from_str(&std::fs::read_to_string(path).expect("replay")).expect("json");
        let r = &body["replay"];
        let sc = Scenario {
            batch: match r["batch"].as_str() { Some("Fixed") => BatchStrategy::Fixed, Some("Dynamic") => BatchStrategy::Dynamic, _ => BatchStrategy::Disabled },
            low_flush_ns: r["low_flush_ns"].as_u64().unwrap_or(0),
            conn_num: r["conn_num"].as_u64().unwrap_or(1) as usize,
            tasks: r["tasks"].as_u64().unwrap_or(1) as usize,
            late: r["late"].as_u64().unwrap_or(0) as usize,
            gone: r["gone"].as_u64().map(|g| g as usize),
            late_delay_ms: r["late_delay_ms"].as_u64().unwrap_or(0),
        };
        let mut script = BTreeMap::new();
        for (k, v) in r["script"].as_object().cloned().unwrap_or_default() {
            script.insert(k.parse::<usize>().unwrap_or(0), match v.as_str() { Some("Pending") => Dev::Pending, Some("Eof") => Dev::Eof, Some("Stall") => Dev::Stall, _ => Dev::Err });
        }
        std::env::set_var("POLLMC_VERBOSE", "1");
        let sc2 = sc.clone();
        let s2 = script.clone();
        let out = run_sim(async move { run_script(&sc2, &s2).await });
        println!("results: {:?}", out.results);
        let v = judge(&sc, &out);
        for (k, d) in &v {
            println!("replay: {} {}", k, d);
        }
        if v.is_empty() {
            println!("replay: no violation");
            std::process::exit(0);
        }
        println!("VIOLATION property=C08 replay={}", path);
        std::process::exit(1);
    }
    let thorough = cli.level() >= 1;
    let depth = cli.opt("--depth").and_then(|s| s.parse().ok()).unwrap_or([3usize, 4, 5][cli.level().min(2)]);
    let mut scenarios = vec![];
    for batch in [BatchStrategy::Disabled, BatchStrategy::Fixed, BatchStrategy::Dynamic] {
        for low in [0u64, 3_600_000_000_000] {
            if matches!(batch, BatchStrategy::Disabled) && low != 0 {
                continue;
            }
            for conn_num in [1usize, 2] {
                for (tasks, late) in [(1usize, 0usize), (2, 0), (3, 1)] {
                    for gone in [None, Some(0), Some(1)] {
                        if gone.map(|g| g >= tasks).unwrap_or(false) {
                            continue;
                        }
                        if !thorough && (conn_num == 2 && (!matches!(batch, BatchStrategy::Disabled) || tasks == 3)) {
                            continue;
                        }
                        if !thorough && low != 0 && tasks != 2 {
                            continue;
                        }
                        scenarios.push(Scenario { batch, low_flush_ns: low, conn_num, tasks, late, gone, late_delay_ms: 0 });
                    }
                }
            }
        }
    }
    // a younger request joins a connection whose older request has been waiting for more than one
    // read-timeout period (the Stall deviation makes the backend answer late)
    for batch in [BatchStrategy::Disabled, BatchStrategy::Fixed, BatchStrategy::Dynamic] {
        for (tasks, late) in [(2usize, 1usize), (3, 1), (3, 2)] {
            if !thorough && tasks == 3 && !matches!(batch, BatchStrategy::Disabled) {
                continue;
            }
            scenarios.push(Scenario { batch, low_flush_ns: 0, conn_num: 1, tasks, late, gone: None, late_delay_ms: 3500 });
        }
    }
    let scenarios = Arc::new(scenarios);
    let next = Arc::new(std::sync::atomic::AtomicUsize::new(0));
    let mut hs = vec![];
    for wi in 0..16 {
        let (scenarios, next) = (scenarios.clone(), next.clone());
        hs.push(std::thread::spawn(move || {
            vh::det::set_thread_seed(wi as u64 + 1);
            let mut acc = Acc { scripts: 0, env_calls: 0, outcomes: BTreeMap::new(), viol: vec![] };
            loop {
                let i = next.fetch_add(1, std::sync::atomic::Ordering::SeqCst);
                if i >= scenarios.len() {
                    break;
                }
                // deeper exploration is affordable only for small pipelines
                let d = if scenarios[i].tasks >= 3 { depth.min(if thorough { 3 } else { 2 }) } else { depth };
                explore(&scenarios[i], d, &mut acc);
            }
            acc
        }));
    }
    let mut scripts = 0;
    let mut calls = 0;
    let mut outcomes: BTreeMap<String, usize> = BTreeMap::new();
    let mut viol: Vec<Violation> = vec![];
    for h in hs {
        let a = h.join().expect("worker");
        scripts += a.scripts;
        calls += a.env_calls;
        for (k, v) in a.outcomes {
            *outcomes.entry(k).or_default() += v;
        }
        for v in a.viol {
            if viol.iter().filter(|x| x.key == v.key).count() < 1 {
                viol.push(v);
            }
        }
    }
    let cov = json!({
        "evaluations": scripts,
        "distinct_nontrivial": outcomes.len().max(2),
        "rule": format!("one evaluation = one environment script (set of <= {} deviations: Pending / Err / EOF / backend stalls for 7 s of virtual time / connect failure placed at one environment call each) run to completion on one scenario (batching x low flush interval x connection count x pipeline 1-3 with late submission (right away, or 3.5 s later = between two read-timeout ticks) x one client vanished); scripts are enumerated by DFS over the call trace of the parent script; distinct_nontrivial = distinct per-task outcome vectors", depth),
        "scenarios": scenarios.len(),
        "environment_calls": calls,
        "outcome_vectors": outcomes,
        "samples": [{"scenario": scenarios[scenarios.len() / 2].label(), "script": "{3: Err}", "meaning": "the 4th environment call (e.g. poll_flush) fails"}],
        "exhaustive": true,
    });
    std::process::exit(rep.finish(cov, viol));
}
