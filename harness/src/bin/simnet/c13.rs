//! C13 — broker state loss is recoverable by epoch recovery.
//!
//! Histories S0 -> ... -> Sn of the real broker; the broker "crashes" and restarts from the
//! snapshot of any prefix state S_i; every proxy holds the view of some state (none, S_i .. S_n);
//! proxies are reachable or not.  The *production* `MemBrokerService::recover_epoch()` is called:
//! it dials the proxy addresses over real loopback TCP, where harness responders answer
//! `UMCTL GETEPOCH` with the assigned epochs.  Oracle 1: every view served afterwards carries an
//! epoch strictly greater than every reachable proxy's epoch and every epoch of the restored
//! snapshot.  Oracle 2 (simnet): real proxies pre-loaded with their views adopt the recovered
//! view within two real coordinator sync rounds.

use serde_json::{json, Value};
use std::collections::{BTreeMap, BTreeSet, HashSet};
use std::io::{Read, Write};
use std::net::TcpListener;
use std::sync::atomic::{AtomicBool, AtomicU64, Ordering};
use std::sync::Arc;
use vh::brokerlib::*;
use vh::clustersim::*;
use vh::report::*;
use vh::sim::*;

const UNREACHABLE: u64 = u64::MAX;

struct Responders {
    epochs: Vec<Arc<AtomicU64>>,
    stop: Arc<AtomicBool>,
    threads: Vec<std::thread::JoinHandle<()>>,
    asked: Vec<Arc<AtomicU64>>,
}

impl Responders {
    fn start(addrs: &[String]) -> Result<Responders, String> {
        let stop = Arc::new(AtomicBool::new(false));
        let mut epochs = vec![];
        let mut asked = vec![];
        let mut threads = vec![];
        for a in addrs {
            let l = TcpListener::bind(a.as_str()).map_err(|e| format!("bind {}: {}", a, e))?;
            l.set_nonblocking(true).map_err(|e| e.to_string())?;
            let e = Arc::new(AtomicU64::new(0));
            let n = Arc::new(AtomicU64::new(0));
            epochs.push(e.clone());
            asked.push(n.clone());
            let stop2 = stop.clone();
            threads.push(std::thread::spawn(move || {
                while !stop2.load(Ordering::SeqCst) {
                    match l.accept() {
                        Ok((mut s, _)) => {
                            let _ = s.set_nonblocking(false);
                            let _ = s.set_read_timeout(Some(std::time::Duration::from_millis(200)));
                            let v = e.load(Ordering::SeqCst);
                            if v == UNREACHABLE {
                                // behaves like a dead proxy: the connection is dropped without a reply
                                continue;
                            }
                            let mut buf = [0u8; 256];
                            // a connection may carry several requests (pooled client)
                            while let Ok(k) = s.read(&mut buf) {
                                if k == 0 {
                                    break;
                                }
                                n.fetch_add(1, Ordering::SeqCst);
                                let v = e.load(Ordering::SeqCst);
                                if s.write_all(format!(":{}\r\n", v).as_bytes()).is_err() {
                                    break;
                                }
                            }
                        }
                        Err(_) => std::thread::sleep(std::time::Duration::from_micros(200)),
                    }
                }
            }));
        }
        Ok(Responders { epochs, stop, threads, asked })
    }
}

impl Drop for Responders {
    fn drop(&mut self) {
        self.stop.store(true, Ordering::SeqCst);
        for t in self.threads.drain(..) {
            let _ = t.join();
        }
    }
}

fn ops_for(b: &Broker, snap: &Value) -> Vec<Op> {
    let mut ops = vec![];
    let names = cluster_names(snap);
    if !names.contains(&"c1".to_string()) {
        ops.push(Op::AddCluster { name: "c1".into(), n: 4 });
        ops.push(Op::AddCluster { name: "c1".into(), n: 8 });
    } else {
        ops.push(Op::AutoAddNodes { name: "c1".into(), n: 4 });
        ops.push(Op::MigrateSlots { name: "c1".into() });
        ops.push(Op::ScaleDown { name: "c1".into(), n: 4 });
        ops.push(Op::ChangeConfig { name: "c1".into(), k: "compression_strategy".into(), v: "allow_all".into() });
        ops.push(Op::Balance { name: "c1".into() });
        if !names.contains(&"c2".to_string()) {
            ops.push(Op::AddCluster { name: "c2".into(), n: 4 });
        } else {
            ops.push(Op::ChangeConfig { name: "c2".into(), k: "compression_strategy".into(), v: "set_get_only".into() });
        }
        if let Some(c) = b.cluster("c1") {
            for t in migrating_tasks(&c) {
                ops.push(Op::Commit { task: serde_json::to_string(&t).unwrap() });
            }
            if let Some(n) = c.get_nodes().first() {
                ops.push(Op::Failover { addr: n.get_proxy_address().to_string() });
            }
        }
    }
    ops
}

fn gen_paths(counts: &[usize], n: usize, cap: usize) -> Vec<(Vec<Value>, Vec<String>)> {
    let cfg = BrokerCfg { ordered: false, migration_limit: 0, failure_quorum: 1, failure_ttl: 100000 };
    let b = Broker::empty(&cfg);
    for (i, (addr, host, nodes)) in ip_layout(counts).iter().enumerate() {
        let p = serde_json::from_value(register_op(addr, host, nodes, i)).unwrap();
        futures::executor::block_on(b.svc.add_proxy(p)).expect("add_proxy");
    }
    let mut paths: Vec<(Vec<Value>, Vec<String>)> = vec![(vec![b.snapshot()], vec![])];
    let mut out = vec![];
    let mut seen: HashSet<String> = HashSet::new();
    for _ in 0..n {
        let mut next = vec![];
        for (snaps, labels) in &paths {
            let last = snaps.last().unwrap();
            let bb = Broker::from_snapshot(&cfg, 0, last).expect("restore");
            for op in ops_for(&bb, last) {
                let b2 = Broker::from_snapshot(&cfg, 0, last).expect("restore");
                if !b2.apply(&op).starts_with("OK") {
                    continue;
                }
                let s2 = b2.snapshot();
                let mut sn = snaps.clone();
                sn.push(s2);
                let mut lb = labels.clone();
                lb.push(format!("{:?}", op).chars().take(48).collect());
                let key = format!("{:?}", lb);
                if seen.insert(key) {
                    next.push((sn.clone(), lb.clone()));
                    out.push((sn, lb));
                    if out.len() >= cap {
                        return out;
                    }
                }
            }
        }
        paths = next;
    }
    out
}

fn served_epoch(cfg: &BrokerCfg, snap: &Value, addr: &str) -> u64 {
    Broker::from_snapshot(cfg, 0, snap).ok().and_then(|b| b.proxy(addr)).map(|p| p.get_epoch()).unwrap_or(0)
}

struct Acc {
    cases: usize,
    adoption_cases: usize,
    viol: Vec<Violation>,
    outcomes: BTreeSet<String>,
}

fn add(acc: &mut Acc, key: &str, desc: String, replay: Value) {
    if acc.viol.iter().filter(|v| v.key == key).count() < 1 {
        acc.viol.push(Violation { key: key.into(), desc, replay });
    }
}

pub fn run(cli: &Cli) -> (Value, Vec<Violation>) {
    let thorough = cli.thorough();
    let counts = vec![2usize, 2, 2];
    let cfg = BrokerCfg { ordered: false, migration_limit: 0, failure_quorum: 1, failure_ttl: 100000 };
    let layout = ip_layout(&counts);
    let addrs: Vec<String> = layout.iter().map(|l| l.0.clone()).collect();
    let responders = match Responders::start(&addrs) {
        Ok(r) => r,
        Err(e) => machinery_error(&format!("cannot start loopback responders: {}", e)),
    };
    let rt = tokio::runtime::Builder::new_current_thread().enable_all().build().expect("rt");
    let paths = gen_paths(&counts, if thorough { 4 } else { 3 }, if thorough { 1500 } else { 220 });
    let mut acc = Acc { cases: 0, adoption_cases: 0, viol: vec![], outcomes: BTreeSet::new() };
    let mut asked_total = 0u64;
    for (pi, (snaps, labels)) in paths.iter().enumerate() {
        let n = snaps.len() - 1;
        for i in 0..=n {
            // assignments of "which state's view does proxy p hold" (index into snaps, or None)
            let mut assigns: Vec<(String, Vec<Option<usize>>, Vec<bool>, Option<usize>)> = vec![];
            let np = addrs.len();
            assigns.push(("all at latest".into(), vec![Some(n); np], vec![true; np], None));
            assigns.push(("all at crash point".into(), vec![Some(i); np], vec![true; np], None));
            for p in 0..np {
                let mut a = vec![Some(i); np];
                a[p] = Some(n);
                assigns.push((format!("only {} at latest", addrs[p]), a, vec![true; np], None));
                if thorough || p % 2 == 0 {
                    let mut a2 = vec![Some(n); np];
                    a2[p] = None;
                    assigns.push((format!("{} fresh (no metadata)", addrs[p]), a2, vec![true; np], None));
                    let mut r = vec![true; np];
                    r[p] = false;
                    assigns.push((format!("{} unreachable, rest latest", addrs[p]), vec![Some(n); np], r, None));
                }
            }
            if n >= 2 && i + 1 < n {
                // mixed: odd proxies one step behind the latest
                let a: Vec<Option<usize>> = (0..np).map(|p| if p % 2 == 0 { Some(n) } else { Some(n - 1) }).collect();
                assigns.push(("odd proxies one step behind".into(), a, vec![true; np], None));
            }
            if i < n {
                // a sync of the latest view was cut between its two messages: the proxy installed
                // the SETREPL of the latest view but still holds the SETCLUSTER of the crash point
                for p in 0..np {
                    if thorough || p % 3 == 0 {
                        assigns.push((format!("all at crash point, {} also got the SETREPL (not the SETCLUSTER) of the latest view", addrs[p]), vec![Some(i); np], vec![true; np], Some(p)));
                    }
                }
            }
            for (ai, (alabel, assign, reach, half)) in assigns.iter().enumerate() {
                acc.cases += 1;
                let mut installed: Vec<u64> = vec![];
                for (p, a) in assign.iter().enumerate() {
                    let e = match a {
                        Some(j) => served_epoch(&cfg, &snaps[*j], &addrs[p]),
                        None => 0,
                    };
                    installed.push(e);
                    responders.epochs[p].store(if reach[p] { e } else { UNREACHABLE }, Ordering::SeqCst);
                }
                let b = Broker::from_snapshot(&cfg, 0, &snaps[i]).expect("restore");
                let before: u64 = responders.asked.iter().map(|a| a.load(Ordering::SeqCst)).sum();
                let res = rt.block_on(b.svc.recover_epoch());
                let after: u64 = responders.asked.iter().map(|a| a.load(Ordering::SeqCst)).sum();
                asked_total += after - before;
                let ctx = json!({"history": labels, "crash_after_step": i, "assignment": alabel, "installed_epochs": installed, "reachable": reach});
                let failed_addrs = match res {
                    Ok(f) => f,
                    Err(e) => {
                        add(&mut acc, "recover-epoch-failed", format!("history {:?} crash {}: recover_epoch -> {}", labels, i, e), ctx);
                        continue;
                    }
                };
                let max_reach = installed.iter().zip(reach.iter()).filter(|(_, r)| **r).map(|(e, _)| *e).max().unwrap_or(0);
                let mut snap_epochs = BTreeSet::new();
                collect_epochs(&snaps[i], &mut snap_epochs);
                let max_snap = snap_epochs.iter().next_back().cloned().unwrap_or(0);
                let after_snap = b.snapshot();
                let mut min_served = u64::MAX;
                for a in proxy_addrs(&after_snap) {
                    if let Some(p) = b.proxy(&a) {
                        min_served = min_served.min(p.get_epoch());
                        if p.get_epoch() <= max_reach {
                            add(&mut acc, "served-epoch-not-above-a-reachable-proxys-epoch", format!("history {:?}, broker restarted from the state after step {} ({}): after recover_epoch the view of {} has epoch {} but a reachable proxy holds epoch {}", labels, i, alabel, a, p.get_epoch(), max_reach), ctx.clone());
                        }
                        if p.get_epoch() <= max_snap {
                            add(&mut acc, "served-epoch-not-above-the-restored-snapshot", format!("history {:?} crash {}: view of {} has epoch {} but the snapshot contained epoch {}", labels, i, a, p.get_epoch(), max_snap), ctx.clone());
                        }
                    }
                }
                let unreachable: BTreeSet<String> = reach.iter().enumerate().filter(|(_, r)| !**r).map(|(p, _)| addrs[p].clone()).collect();
                let reported: BTreeSet<String> = failed_addrs.into_iter().collect();
                if reported != unreachable {
                    add(&mut acc, "failed-address-report-wrong", format!("recover_epoch reported {:?} as failed, unreachable were {:?}", reported, unreachable), ctx.clone());
                }
                acc.outcomes.insert(format!("gap={}", min_served.saturating_sub(max_reach.max(max_snap)).min(5)));
                // ---- oracle 2: adoption by real proxies (subset of cases)
                let do_adopt = half.is_some() && (thorough || pi % 3 == 0) || if thorough { ai < 3 || (pi + i) % 7 == 0 } else { (pi % 5 == 0 && ai < 3) || ai == 0 && pi % 2 == 0 };
                if do_adopt {
                    acc.adoption_cases += 1;
                    let recovered = after_snap.clone();
                    let (snaps2, assign2, reach2, cfg2, counts2, addrs2) = (snaps.clone(), assign.clone(), reach.clone(), cfg.clone(), counts.clone(), addrs.clone());
                    let (half2, latest) = (*half, n);
                    let r = vh::det::on_fresh_thread(pi as u64 * 131 + ai as u64, 32 << 20, move || {
                        run_sim(async move {
                            let world = World::new();
                            let opts = ProxyOpts::default();
                            for (addr, _, nodes) in ip_layout(&counts2) {
                                world.add_redis(&nodes[0]);
                                world.add_redis(&nodes[1]);
                                world.add_proxy(&addr, &opts);
                            }
                            // pre-load every proxy with the view of its state
                            let mut distinct: BTreeSet<usize> = assign2.iter().flatten().cloned().collect();
                            let order: Vec<usize> = std::mem::take(&mut distinct).into_iter().collect();
                            for j in order {
                                let b = Broker::from_snapshot(&cfg2, 0, &snaps2[j]).expect("restore");
                                let sim = ClusterSim::with_world(world.clone(), &counts2, &cfg2, &opts, b);
                                let allowed: BTreeSet<String> = assign2.iter().enumerate().filter(|(_, a)| **a == Some(j)).map(|(p, _)| addrs2[p].clone()).collect();
                                world.set_gate(Some(Box::new(move |r: &ReqInfo| if r.from == "coordinator" && !allowed.contains(&r.to) { Gate::Fail } else { Gate::Pass })));
                                sim.sync_round("coordinator", false).await;
                                world.settle().await;
                            }
                            if let Some(hp) = half2 {
                                // the interrupted sync of the latest view: only its SETREPL reaches `hp`
                                let b = Broker::from_snapshot(&cfg2, 0, &snaps2[latest]).expect("restore");
                                let sim = ClusterSim::with_world(world.clone(), &counts2, &cfg2, &opts, b);
                                let target = addrs2[hp].clone();
                                world.set_gate(Some(Box::new(move |r: &ReqInfo| {
                                    let setcluster = r.cmds.first().map(|c| c.len() > 1 && c[1].eq_ignore_ascii_case(b"SETCLUSTER")).unwrap_or(false);
                                    if r.from == "coordinator" && (r.to != target || setcluster) { Gate::Fail } else { Gate::Pass }
                                })));
                                sim.sync_round("coordinator", false).await;
                                world.settle().await;
                            }
                            // the recovered broker takes over
                            let unreachable: BTreeSet<String> = reach2.iter().enumerate().filter(|(_, r)| !**r).map(|(p, _)| addrs2[p].clone()).collect();
                            {
                                let mut st = world.0.st.lock().unwrap();
                                for u in &unreachable {
                                    st.down.insert(u.clone());
                                }
                            }
                            world.set_gate(None);
                            let b = Broker::from_snapshot(&cfg2, 0, &recovered).expect("restore recovered");
                            let sim = ClusterSim::with_world(world.clone(), &counts2, &cfg2, &opts, b);
                            for _ in 0..2 {
                                sim.sync_round("coordinator", false).await;
                                world.settle().await;
                            }
                            let mut bad = vec![];
                            for a in proxy_addrs(&recovered) {
                                if unreachable.contains(&a) || sim.broker.broker.failed_proxies().contains(&a) {
                                    continue;
                                }
                                let want = sim.broker.broker.proxy(&a).map(|p| p.get_epoch());
                                let got = sim.proxy_epoch(&a).await;
                                if want != got {
                                    bad.push(format!("{} holds epoch {:?}, recovered view has {:?}", a, got, want));
                                }
                            }
                            bad
                        })
                    });
                    match r {
                        Ok(bad) => {
                            if !bad.is_empty() {
                                add(&mut acc, "reachable-proxy-does-not-adopt-the-recovered-view", format!("history {:?}, restart from step {} ({}): after two sync rounds {:?}", labels, i, alabel, bad), ctx.clone());
                            }
                        }
                        Err(_) => add(&mut acc, "adoption-case-panicked", format!("history {:?}", labels), ctx.clone()),
                    }
                }
            }
        }
    }
    drop(responders);
    let cov = json!({
        "states": paths.iter().map(|p| p.0.len()).sum::<usize>(),
        "transitions": acc.cases,
        "traces_validated_against_impl": acc.cases,
        "evaluations": acc.cases,
        "distinct_nontrivial": acc.outcomes.len().max(2),
        "rule": "case = (operation history of length <= n over {create 4/8, second cluster, add nodes, migrate, scale down, config change, balance, commit any, failover}, crash point i = any prefix, assignment of proxy views: all latest / all at crash point / one proxy ahead / one proxy fresh / one unreachable / odd proxies one step behind / one proxy holding the SETREPL but not the SETCLUSTER of the latest view (a sync cut between its two messages)); the production MemBrokerService::recover_epoch runs against loopback responders answering UMCTL GETEPOCH",
        "histories": paths.len(),
        "cases": acc.cases,
        "adoption_cases_on_real_proxies": acc.adoption_cases,
        "getepoch_requests_answered_over_tcp": asked_total,
        "epoch_gap_classes": acc.outcomes,
        "samples": [{"history": paths.get(paths.len() / 2).map(|p| p.1.clone()), "crash_after_step": 1, "assignment": "only 127.0.0.2:7000 at latest"}],
        "exhaustive": true,
    });
    (cov, acc.viol)
}
