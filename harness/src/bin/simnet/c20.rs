//! C20 — value compression is transparent (strategy x topology x write shape x read shape x value).

use serde_json::{json, Value};
use vh::report::*;
use undermoon::protocol::{Array, BulkStr, Resp, RespVec};
use vh::sim::*;

const P1: &str = "127.0.0.1:7000";
const N1: &str = "127.0.0.1:6000";
const P2: &str = "127.0.0.2:7000";
const N2: &str = "127.0.0.2:6000";

fn prng_bytes(n: usize, seed: u64) -> Vec<u8> {
    let mut x: u64 = 0x9e37_79b9_7f4a_7c15 ^ seed;
    (0..n)
        .map(|_| {
            x ^= x << 13;
            x ^= x >> 7;
            x ^= x << 17;
            (x & 0xff) as u8
        })
        .collect()
}

fn values(thorough: bool) -> Vec<(String, Vec<u8>)> {
    let mut v: Vec<(String, Vec<u8>)> = vec![
        ("empty".into(), vec![]),
        ("one byte".into(), vec![b'x']),
        ("all 256 byte values".into(), (0..=255u8).collect()),
        ("resp look-alike".into(), b"\r\n$-1\r\n".to_vec()),
        ("1 KiB incompressible".into(), {
            let mut x: u64 = 0x1234_5678_9abc_def0;
            (0..1024)
                .map(|_| {
                    x ^= x << 13;
                    x ^= x >> 7;
                    x ^= x << 17;
                    (x & 0xff) as u8
                })
                .collect()
        }),
        ("a valid zstd frame".into(), zstd::encode_all(&b"inner value"[..], 1).unwrap()),
        ("literal OK".into(), b"OK".to_vec()),
        ("integer text".into(), b"12345".to_vec()),
    ];
    // large values around the streaming buffer sizes of the compression library (8 KiB chunks,
    // 128 KiB blocks), incompressible (the stored frame is as large as the value) and compressible
    for n in if thorough { vec![8191usize, 8192, 8193, 131071, 131072, 131073, 200_000, 262_144, 1 << 20, 3_000_000] } else { vec![8193usize, 131072, 200_000] } {
        v.push((format!("{} pseudo-random bytes", n), prng_bytes(n, n as u64)));
    }
    v.push(("300000 bytes of text".into(), b"undermoon ".iter().cloned().cycle().take(300_000).collect()));
    if thorough {
        v.push(("64 KiB zeros".into(), vec![0u8; 65536]));
        v.push(("zstd magic only".into(), vec![0x28, 0xB5, 0x2F, 0xFD]));
        // every single byte and every 2-byte string over a framing-sensitive alphabet
        for b in 0..=255u8 {
            v.push((format!("byte 0x{:02x}", b), vec![b]));
        }
        let alpha: [u8; 8] = [0x00, b'\r', b'\n', b'$', b'*', 0x28, 0xB5, 0xFF];
        for a in alpha {
            for b in alpha {
                v.push((format!("bytes 0x{:02x}{:02x}", a, b), vec![a, b]));
            }
        }
        // lengths around powers of two, compressible and not
        for n in [2usize, 3, 7, 8, 9, 15, 16, 17, 31, 32, 33, 63, 64, 65, 127, 128, 129, 255, 256, 257, 1023, 1025, 4095, 4097] {
            v.push((format!("{} x 'a'", n), vec![b'a'; n]));
            let mut x: u64 = 0x9e37_79b9_7f4a_7c15 ^ n as u64;
            v.push((format!("{} pseudo-random bytes", n), (0..n).map(|_| { x ^= x << 13; x ^= x >> 7; x ^= x << 17; (x & 0xff) as u8 }).collect()));
        }
        v.push(("1 MiB of text".into(), b"undermoon ".iter().cloned().cycle().take(1 << 20).collect()));
        v.push(("a zstd frame of a zstd frame".into(), zstd::encode_all(&zstd::encode_all(&b"inner"[..], 1).unwrap()[..], 1).unwrap()));
        v.push(("truncated zstd frame".into(), { let mut f = zstd::encode_all(&b"inner value inner value"[..], 1).unwrap(); f.truncate(f.len() - 3); f }));
    } else {
        v.push(("8 KiB zeros".into(), vec![0u8; 8192]));
    }
    v
}

struct Acc {
    viol: Vec<Violation>,
    cases: usize,
    classes: std::collections::BTreeMap<String, usize>,
}

fn add(acc: &mut Acc, key: &str, desc: String, replay: Value) {
    // the key names the topology and (for compression-specific failures) whether compression is on
    let topo = if replay.get("two_proxies").and_then(|x| x.as_bool()).unwrap_or(false) {
        if replay.get("max_redirections").and_then(|x| x.as_u64()).unwrap_or(0) > 0 { "write-via-non-owner-with-active-redirection(UMFORWARD)" } else { "write-via-non-owner-with-active-redirection" }
    } else {
        "owner-proxy"
    };
    let comp = match replay.get("strategy").and_then(|x| x.as_str()) {
        Some("disabled") => "compression-off",
        Some(_) => "compression-on",
        None => "any",
    };
    let key = format!("{}:{}:{}", topo, comp, key);
    if acc.viol.iter().filter(|v| v.key == key).count() < 2 {
        acc.viol.push(Violation { key, desc, replay });
    }
}

fn setcluster(epoch: u64, strategy: &str, me: u8) -> Cmd {
    // P1 owns 0-8000 on N1, P2 owns 8001-16383 on N2
    let (local, lr, peer, pr) = if me == 1 { (N1, "0-8000", P2, "8001-16383") } else { (N2, "8001-16383", P1, "0-8000") };
    cmd(&["UMCTL", "SETCLUSTER", "v2", &epoch.to_string(), "NOFLAG", "c1", local, "1", lr, "PEER", peer, "1", pr, "CONFIG", "compression_strategy", strategy])
}

fn key_in(range: (usize, usize), tag: &str, n: usize) -> Vec<u8> {
    // keys sharing one slot (hash tag) inside the range
    let mut t = 0;
    loop {
        let tg = format!("{}{}", tag, t);
        let s = vh::c09keys::ref_slot(tg.as_bytes());
        if s >= range.0 && s <= range.1 {
            return format!("{{{}}}:{}", tg, n).into_bytes();
        }
        t += 1;
    }
}

async fn run_one(strategy: &'static str, two_proxies: bool, max_redir: usize, thorough: bool) -> Acc {
    let mut acc = Acc { viol: vec![], cases: 0, classes: Default::default() };
    let w = World::new();
    w.add_redis(N1);
    w.add_redis(N2);
    let opts = ProxyOpts { active_redirection: two_proxies, max_redirections: max_redir, ..Default::default() };
    w.add_proxy(P1, &opts);
    w.add_proxy(P2, &opts);
    for (p, me) in [(P1, 1u8), (P2, 2u8)] {
        let r = w.client(p, &setcluster(1, strategy, me)).await;
        if show_resp(&r) != "+OK" {
            add(&mut acc, "setup-failed", format!("SETCLUSTER -> {}", show_resp(&r)), json!({}));
            return acc;
        }
    }
    w.settle().await;
    // keys live on N2 (owned by P2); writes enter at `wp`, reads at both proxies when redirection is on
    let (wp, owner_node) = if two_proxies { (P1, N2) } else { (P2, N2) };
    let readers: Vec<&str> = if two_proxies { vec![P1, P2] } else { vec![P2] };
    let enabled = strategy != "disabled";
    let mut ctr = 0usize;
    for (vname, v) in values(thorough) {
        for shape in 0..11usize {
            ctr += 1;
            let tag = format!("t{}x", ctr);
            let k1 = key_in((8001, 16383), &tag, 1);
            let k2 = key_in((8001, 16383), &tag, 2);
            let k3 = key_in((8001, 16383), &tag, 3);
            let v2: Vec<u8> = {
                let mut x = v.clone();
                x.extend_from_slice(b"#2");
                x
            };
            let b = |s: &str| s.as_bytes().to_vec();
            // (command, expected reply, keys written with values, expected ttl ms)
            let (c, want, written, ttl): (Cmd, String, Vec<(Vec<u8>, Vec<u8>)>, Option<u64>) = match shape {
                0 => (vec![b("SET"), k1.clone(), v.clone()], "+OK".into(), vec![(k1.clone(), v.clone())], None),
                1 => (vec![b("SET"), k1.clone(), v.clone(), b("EX"), b("100")], "+OK".into(), vec![(k1.clone(), v.clone())], Some(100_000)),
                2 => (vec![b("SET"), k1.clone(), v.clone(), b("NX")], "+OK".into(), vec![(k1.clone(), v.clone())], None),
                3 => (vec![b("SETEX"), k1.clone(), b("100"), v.clone()], "+OK".into(), vec![(k1.clone(), v.clone())], Some(100_000)),
                4 => (vec![b("PSETEX"), k1.clone(), b("100000"), v.clone()], "+OK".into(), vec![(k1.clone(), v.clone())], Some(100_000)),
                5 => (vec![b("SETNX"), k1.clone(), v.clone()], ":1".into(), vec![(k1.clone(), v.clone())], None),
                6 => (vec![b("GETSET"), k1.clone(), v.clone()], "$nil".into(), vec![(k1.clone(), v.clone())], None),
                7 => (vec![b("MSET"), k1.clone(), v.clone()], "+OK".into(), vec![(k1.clone(), v.clone())], None),
                8 => (vec![b("MSET"), k1.clone(), v.clone(), k2.clone(), v2.clone(), k3.clone(), v.clone()], "+OK".into(), vec![(k1.clone(), v.clone()), (k2.clone(), v2.clone()), (k3.clone(), v.clone())], None),
                9 => (vec![b("MSETNX"), k1.clone(), v.clone(), k2.clone(), v2.clone()], ":1".into(), vec![(k1.clone(), v.clone()), (k2.clone(), v2.clone())], None),
                _ => (vec![b("SET"), k1.clone(), v.clone(), b("PX"), b("100000"), b("XX")], "$nil".into(), vec![], None),
            };
            acc.cases += 1;
            *acc.classes.entry(format!("write:{}", String::from_utf8_lossy(&c[0]))).or_default() += 1;
            let mark = w.log_len();
            let now0 = w.now_ms();
            let reply = w.client(wp, &c).await;
            w.settle().await;
            let ctx = json!({"strategy": strategy, "two_proxies": two_proxies, "max_redirections": max_redir, "value": vname, "write": show_cmd(&c), "reply": show_resp(&reply)});
            if show_resp(&reply) != want {
                add(&mut acc, "write-reply-altered", format!("[{} / {}] {} -> {} expected {}", strategy, vname, show_cmd(&c), show_resp(&reply), want), ctx.clone());
                continue;
            }
            // what the stand-in saw and stores
            let ev: Vec<Event> = w.events_since(mark).into_iter().filter(|e| e.kind == "redis").collect();
            if ev.iter().any(|e| e.at != owner_node) {
                add(&mut acc, "write-on-wrong-node", format!("{} executed on {:?}", show_cmd(&c), ev.iter().map(|e| e.at.clone()).collect::<Vec<_>>()), ctx.clone());
            }
            for (k, val) in &written {
                let stored = w.with_redis(owner_node, |r, _| r.data.get(k).cloned()).flatten();
                match stored {
                    None => add(&mut acc, "write-lost", format!("[{} / {}] {}: key {} not stored", strategy, vname, show_cmd(&c), show(k)), ctx.clone()),
                    Some(e) => {
                        let plain = if enabled { zstd::decode_all(&e.val[..]).ok() } else { Some(e.val.clone()) };
                        if plain.as_ref() != Some(val) {
                            add(&mut acc, "stored-payload-wrong", format!("[{} / {}] {}: stored {} bytes for {} do not {} the value", strategy, vname, show_cmd(&c), e.val.len(), show(k), if enabled { "zstd-decode to" } else { "equal" }), ctx.clone());
                        }
                        let got_ttl = e.expire_at.map(|t| t - now0);
                        if got_ttl != ttl {
                            add(&mut acc, "ttl-altered", format!("[{} / {}] {}: ttl {:?} expected {:?}", strategy, vname, show_cmd(&c), got_ttl, ttl), ctx.clone());
                        }
                    }
                }
            }
            // key / option tokens untouched
            for e in &ev {
                let name = String::from_utf8_lossy(&e.cmd[0]).to_uppercase();
                let orig_opts: Vec<&Vec<u8>> = match shape {
                    1 | 2 | 10 => c[3..].iter().collect(),
                    _ => vec![],
                };
                if name == "SET" && !orig_opts.is_empty() && e.cmd.len() >= 3 && e.cmd[3..].iter().collect::<Vec<_>>() != orig_opts {
                    add(&mut acc, "option-tokens-altered", format!("{} reached the node as {}", show_cmd(&c), show_cmd(&e.cmd)), ctx.clone());
                }
                if (name == "SETEX" || name == "PSETEX") && e.cmd.get(2) != c.get(2) {
                    add(&mut acc, "option-tokens-altered", format!("{} reached the node as {}", show_cmd(&c), show_cmd(&e.cmd)), ctx.clone());
                }
                if !written.iter().any(|(k, _)| e.cmd.get(1) == Some(k)) && !written.is_empty() {
                    add(&mut acc, "key-altered", format!("{} reached the node as {}", show_cmd(&c), show_cmd(&e.cmd)), ctx.clone());
                }
            }
            if written.is_empty() {
                continue;
            }
            // reads
            for rp in &readers {
                let exp_b = |x: &Vec<u8>| format!("${}", show(x));
                // GET
                let r = w.client(rp, &vec![b("GET"), written[0].0.clone()]).await;
                acc.cases += 1;
                *acc.classes.entry("read:GET".into()).or_default() += 1;
                if r != Resp::Bulk(BulkStr::Str(written[0].1.clone())) {
                    add(&mut acc, "get-returns-different-bytes", format!("[{} / {} / via {}] after {}: GET -> {} expected {}", strategy, vname, rp, show_cmd(&c), show_resp(&r), exp_b(&written[0].1)), ctx.clone());
                }
                // MGET with a missing key in the middle
                let mut mc = vec![b("MGET")];
                let missing = key_in((8001, 16383), &tag, 9);
                let mut want_arr: Vec<RespVec> = vec![];
                for (i, (k, val)) in written.iter().enumerate() {
                    if i == 1 {
                        mc.push(missing.clone());
                        want_arr.push(Resp::Bulk(BulkStr::Nil));
                    }
                    mc.push(k.clone());
                    want_arr.push(Resp::Bulk(BulkStr::Str(val.clone())));
                }
                if written.len() == 1 {
                    mc.push(missing.clone());
                    want_arr.push(Resp::Bulk(BulkStr::Nil));
                }
                let r = w.client(rp, &mc).await;
                acc.cases += 1;
                *acc.classes.entry("read:MGET".into()).or_default() += 1;
                if r != Resp::Arr(Array::Arr(want_arr.clone())) {
                    add(&mut acc, "mget-returns-different-bytes", format!("[{} / {} / via {}] after {}: {} -> {}", strategy, vname, rp, show_cmd(&c), show_cmd(&mc), show_resp(&r)), ctx.clone());
                }
            }
            // GETSET returns the old value and stores the new one
            let r = w.client(readers[0], &vec![b("GETSET"), written[0].0.clone(), v2.clone()]).await;
            acc.cases += 1;
            *acc.classes.entry("read:GETSET".into()).or_default() += 1;
            if r != Resp::Bulk(BulkStr::Str(written[0].1.clone())) {
                add(&mut acc, "getset-returns-different-bytes", format!("[{} / {}] after {}: GETSET -> {}", strategy, vname, show_cmd(&c), show_resp(&r)), ctx.clone());
            }
            let r = w.client(readers[readers.len() - 1], &vec![b("GET"), written[0].0.clone()]).await;
            if r != Resp::Bulk(BulkStr::Str(v2.clone())) {
                add(&mut acc, "get-returns-different-bytes", format!("[{} / {}] after GETSET: GET -> {}", strategy, vname, show_resp(&r)), ctx.clone());
            }
            // non-string replies and key-only commands untouched
            let r = w.client(readers[0], &vec![b("EXISTS"), written[0].0.clone()]).await;
            if show_resp(&r) != ":1" {
                add(&mut acc, "non-string-reply-altered", format!("EXISTS -> {}", show_resp(&r)), ctx.clone());
            }
            let r = w.client(readers[0], &vec![b("DEL"), written[0].0.clone()]).await;
            if show_resp(&r) != ":1" {
                add(&mut acc, "non-string-reply-altered", format!("DEL -> {}", show_resp(&r)), ctx.clone());
            }
            let r = w.client(readers[0], &vec![b("GET"), written[0].0.clone()]).await;
            if show_resp(&r) != "$nil" {
                add(&mut acc, "non-string-reply-altered", format!("GET of a deleted key -> {}", show_resp(&r)), ctx.clone());
            }
        }
    }
    // restricted mode: commands that would observe compressed bytes are refused and not forwarded
    let k = key_in((8001, 16383), "restricted", 1);
    let b = |s: &str| s.as_bytes().to_vec();
    let restricted: Vec<Cmd> = vec![
        vec![b("APPEND"), k.clone(), b("x")],
        vec![b("BITCOUNT"), k.clone()],
        vec![b("BITFIELD"), k.clone(), b("GET"), b("u8"), b("0")],
        vec![b("BITPOS"), k.clone(), b("1")],
        vec![b("DECR"), k.clone()],
        vec![b("DECRBY"), k.clone(), b("2")],
        vec![b("GETBIT"), k.clone(), b("0")],
        vec![b("GETRANGE"), k.clone(), b("0"), b("1")],
        vec![b("INCR"), k.clone()],
        vec![b("INCRBY"), k.clone(), b("2")],
        vec![b("INCRBYFLOAT"), k.clone(), b("1.5")],
        vec![b("SETBIT"), k.clone(), b("0"), b("1")],
        vec![b("SETRANGE"), k.clone(), b("0"), b("x")],
        vec![b("STRLEN"), k.clone()],
    ];
    for c in restricted {
        let mark = w.log_len();
        let r = w.client(P2, &c).await;
        w.settle().await;
        acc.cases += 1;
        *acc.classes.entry("restricted".into()).or_default() += 1;
        let ev: Vec<Event> = w.events_since(mark).into_iter().filter(|e| e.kind == "redis").collect();
        if strategy == "set_get_only" {
            if !show_resp(&r).starts_with('-') || !ev.is_empty() {
                add(&mut acc, "restricted-command-not-refused", format!("[set_get_only] {} -> {} ({} backend executions)", show_cmd(&c), show_resp(&r), ev.len()), json!({"cmd": show_cmd(&c)}));
            }
        } else if strategy == "disabled" && (ev.len() != 1 || ev[0].cmd != c) {
            add(&mut acc, "disabled-mode-alters-command", format!("[disabled] {} reached the node as {:?}", show_cmd(&c), ev.iter().map(|e| show_cmd(&e.cmd)).collect::<Vec<_>>()), json!({"cmd": show_cmd(&c)}));
        }
    }
    acc
}

/// Multi-key reads whose per-key backend replies complete in every possible order: 2-3 keys,
/// 1-2 backend connections (round robin), the backend requests are held at the gate and served in
/// the order given by `choices` (index into the currently pending requests, 0 after the prefix).
/// Returns (branching factors met, reply, expected reply).
async fn run_mget_order(strategy: &'static str, conns: usize, nkeys: usize, choices: Vec<usize>) -> Result<(Vec<usize>, RespVec, RespVec, String), String> {
    let w = World::new();
    w.add_redis(N1);
    w.add_redis(N2);
    let opts = ProxyOpts { backend_conn_num: conns, ..Default::default() };
    w.add_proxy(P1, &opts);
    w.add_proxy(P2, &opts);
    for (p, me) in [(P1, 1u8), (P2, 2u8)] {
        let r = w.client(p, &setcluster(1, strategy, me)).await;
        if show_resp(&r) != "+OK" {
            return Err(format!("SETCLUSTER -> {}", show_resp(&r)));
        }
    }
    w.settle().await;
    let b = |s: &str| s.as_bytes().to_vec();
    let keys: Vec<Vec<u8>> = (0..nkeys).map(|i| key_in((8001, 16383), "mo", i + 1)).collect();
    let vals: Vec<Vec<u8>> = (0..nkeys).map(|i| format!("value-of-key-{}-{}", i + 1, "x".repeat(40 * (i + 1))).into_bytes()).collect();
    let mut mset = vec![b("MSET")];
    for (k, v) in keys.iter().zip(&vals) {
        mset.push(k.clone());
        mset.push(v.clone());
    }
    let r = w.client(P2, &mset).await;
    if show_resp(&r) != "+OK" {
        return Err(format!("MSET -> {}", show_resp(&r)));
    }
    w.settle().await;
    w.set_gate(Some(Box::new(|r: &ReqInfo| if r.cmds.first().and_then(|c| c.first()).map(|n| n.eq_ignore_ascii_case(b"GET")).unwrap_or(false) { Gate::Hold } else { Gate::Pass })));
    let mut mget = vec![b("MGET")];
    mget.extend(keys.iter().cloned());
    let out = std::sync::Arc::new(std::sync::Mutex::new(None::<RespVec>));
    {
        let (w2, o2, c2) = (w.clone(), out.clone(), mget.clone());
        tokio::spawn(async move {
            let r = w2.client(P2, &c2).await;
            *o2.lock().unwrap() = Some(r);
        });
    }
    let mut menu = vec![];
    let mut order = vec![];
    for step in 0..64 {
        w.settle().await;
        if out.lock().unwrap().is_some() {
            break;
        }
        let pend = w.pending_infos();
        if pend.is_empty() {
            w.advance_ms(1).await;
            continue;
        }
        let pick = choices.get(menu.len()).cloned().unwrap_or(0).min(pend.len() - 1);
        menu.push(pend.len());
        order.push(show_cmd(&pend[pick].cmds[0]));
        w.release(pend[pick].id, Release::Serve);
        let _ = step;
    }
    w.set_gate(None);
    let got = out.lock().unwrap().clone().ok_or_else(|| "MGET got no reply".to_string())?;
    let want = Resp::Arr(Array::Arr(vals.iter().map(|v| Resp::Bulk(BulkStr::Str(v.clone()))).collect()));
    Ok((menu, got, want, order.join(" < ")))
}

fn mget_order_family(acc_viol: &mut Vec<Violation>) -> (usize, usize) {
    let mut cases = 0;
    let mut max_orders = 0;
    let mut seed = 500u64;
    for strategy in ["disabled", "set_get_only", "allow_all"] {
        for conns in [1usize, 2, 3] {
            for nkeys in [2usize, 3] {
                // DFS over serve orders
                let mut stack: Vec<Vec<usize>> = vec![vec![]];
                let mut orders = 0;
                while let Some(prefix) = stack.pop() {
                    seed += 1;
                    let p2 = prefix.clone();
                    let r = vh::det::on_fresh_thread(seed, 32 << 20, move || run_sim(run_mget_order(strategy, conns, nkeys, p2)));
                    cases += 1;
                    orders += 1;
                    let mut add = |key: &str, desc: String| {
                        if acc_viol.iter().filter(|v| v.key == key).count() < 1 {
                            acc_viol.push(Violation { key: key.into(), desc, replay: json!({"family": "mget-order", "strategy": strategy, "backend_conn_num": conns, "keys": nkeys, "serve_choices": prefix}) });
                        }
                    };
                    match r {
                        Ok(Ok((menu, got, want, order))) => {
                            if got != want {
                                add("mget-values-not-in-key-order", format!("[{} / {} backend connections] MGET of {} keys whose backend replies complete in the order {}: reply {} expected {}", strategy, conns, nkeys, order, show_resp(&got), show_resp(&want)));
                            }
                            for i in prefix.len()..menu.len() {
                                for alt in 1..menu[i] {
                                    let mut p: Vec<usize> = prefix.clone();
                                    p.resize(i, 0);
                                    p.push(alt);
                                    stack.push(p);
                                }
                            }
                        }
                        Ok(Err(e)) => add("mget-order:setup-failed", e),
                        Err(_) => add("mget-order:panicked", "the proxy code panicked".into()),
                    }
                }
                max_orders = max_orders.max(orders);
            }
        }
    }
    (cases, max_orders)
}

pub fn run(cli: &Cli) -> (Value, Vec<Violation>) {
    let thorough = cli.level() >= 1;
    let mut hs = vec![];
    let mut i = 0;
    for strategy in ["disabled", "set_get_only", "allow_all"] {
        for (two, maxr) in [(false, 0usize), (true, 0), (true, 4)] {
            i += 1;
            hs.push(std::thread::spawn(move || vh::det::on_fresh_thread(i, 32 << 20, move || run_sim(run_one(strategy, two, maxr, thorough))).expect("worker")));
        }
    }
    let mut viol: Vec<Violation> = vec![];
    let mut cases = 0;
    let mut classes: std::collections::BTreeMap<String, usize> = Default::default();
    for h in hs {
        let a = h.join().expect("join");
        cases += a.cases;
        for (k, v) in a.classes {
            *classes.entry(k).or_default() += v;
        }
        for v in a.viol {
            if viol.iter().filter(|x| x.key == v.key).count() < 2 {
                viol.push(v);
            }
        }
    }
    let (order_cases, max_orders) = mget_order_family(&mut viol);
    cases += order_cases;
    let cov = json!({
        "mget_completion_order_family": {"cases": order_cases, "max_serve_orders_per_configuration": max_orders, "rule": "MGET of 2-3 existing keys with 1-3 backend connections per node (round robin); the per-key backend requests wait at the network gate and every serve order the connections allow is enumerated; the reply must list the values in key order"},
        "evaluations": cases,
        "distinct_nontrivial": cases,
        "rule": "strategy {disabled,set_get_only,allow_all} x topology {owner proxy, second proxy with active redirection without / with max_redirections (UMFORWARD)} x 11 write shapes (SET, SET EX, SET NX, SETEX, PSETEX, SETNX, GETSET, MSET 1/3 pairs, MSETNX, SET PX XX on a missing key) x values x reads (GET, MGET incl. a missing key, GETSET) + 14 string-content commands per strategy; every case uses fresh keys and is distinct",
        "case_classes": classes,
        "values": values(thorough).iter().map(|(n, v)| format!("{} ({} B)", n, v.len())).collect::<Vec<_>>(),
        "samples": [{"write": "SET {t1x0}:1 <value> EX 100", "oracle": "reply +OK; node stores zstd(value) with ttl 100000 ms; GET via every proxy returns value"}],
        "exhaustive": true,
    });
    (cov, viol)
}
