//! C05 sequential part — all short sequences of SETCLUSTER / SETREPL messages on one real proxy
//! against a two-register reference model.

use serde_json::{json, Value};
use undermoon::common::cluster::ClusterName;
use undermoon::common::config::ClusterConfig;
use undermoon::common::proto::{ClusterMapFlags, ProxyClusterMeta};
use undermoon::common::cluster::{Range, RangeList, SlotRange, SlotRangeTag};
use std::collections::HashMap;
use std::convert::TryFrom;
use vh::report::*;
use vh::sim::*;

const P: &str = "127.0.0.1:7000";
const N1: &str = "127.0.0.1:6000";
const X: &str = "127.0.0.2:7000";
const XN: &str = "127.0.0.2:6000";

#[derive(Clone, Debug, PartialEq, Eq)]
enum Kind {
    Cluster,
    Repl,
}

#[derive(Clone, Debug)]
struct Msg {
    kind: Kind,
    epoch: u64,
    force: bool,
    content: u8, // 0 = A, 1 = B
    wrong_host: bool,
    compressed: bool,
    /// wrong-host messages only: the local node address used (default 127.0.0.9:6000)
    node: Option<&'static str>,
    /// wrong-host messages only: a second local node on the right host precedes the foreign one
    mixed: bool,
}

impl Msg {
    fn label(&self) -> String {
        format!(
            "{}(e{}{}{}{}{})",
            if self.kind == Kind::Cluster { "SETCLUSTER" } else { "SETREPL" },
            self.epoch,
            if self.force { ",FORCE" } else { "" },
            if self.content == 0 { ",A" } else { ",B" },
            if self.wrong_host { format!(",wrong-host[{}{}]", self.node.unwrap_or("127.0.0.9:6000"), if self.mixed { "+own" } else { "" }) } else { String::new() },
            if self.compressed { ",compressed" } else { "" }
        )
    }
    fn to_cmd(&self) -> Cmd {
        let flags = match (self.force, self.compressed) {
            (false, false) => "NOFLAG",
            (true, false) => "FORCE",
            (false, true) => "COMPRESS",
            (true, true) => "FORCE,COMPRESS",
        };
        let node = if self.wrong_host { self.node.unwrap_or("127.0.0.9:6000") } else { N1 };
        match self.kind {
            Kind::Cluster => {
                let (mine, theirs) = if self.content == 0 { ((0, 8000), (8001, 16383)) } else { ((8001, 16383), (0, 8000)) };
                if self.compressed {
                    let sr = |r: (usize, usize)| vec![SlotRange { range_list: RangeList::new(vec![Range(r.0, r.1)]), tag: SlotRangeTag::None }];
                    let mut local = HashMap::new();
                    local.insert(node.to_string(), sr(mine));
                    let mut peer = HashMap::new();
                    peer.insert(X.to_string(), sr(theirs));
                    let m = ProxyClusterMeta::new(self.epoch, ClusterMapFlags { force: self.force, compress: true }, ClusterName::try_from("c1").unwrap(), local, peer, ClusterConfig::default());
                    let mut c = cmd(&["UMCTL", "SETCLUSTER"]);
                    c.extend(m.to_compressed_args().expect("compress").into_iter().map(|s| s.into_bytes()));
                    c
                } else {
                    if self.mixed {
                        cmd(&["UMCTL", "SETCLUSTER", "v2", &self.epoch.to_string(), flags, "c1", N1, "1", &format!("{}-{}", mine.0, mine.0 + 10), node, "1", &format!("{}-{}", mine.0 + 11, mine.1), "PEER", X, "1", &format!("{}-{}", theirs.0, theirs.1)])
                    } else {
                        cmd(&["UMCTL", "SETCLUSTER", "v2", &self.epoch.to_string(), flags, "c1", node, "1", &format!("{}-{}", mine.0, mine.1), "PEER", X, "1", &format!("{}-{}", theirs.0, theirs.1)])
                    }
                }
            }
            Kind::Repl => {
                let role = if self.content == 0 { "master" } else { "replica" };
                if self.mixed {
                    cmd(&["UMCTL", "SETREPL", &self.epoch.to_string(), if self.force { "FORCE" } else { "NOFLAG" }, role, "c1", N1, "1", XN, X, role, "c1", node, "1", XN, X])
                } else {
                    cmd(&["UMCTL", "SETREPL", &self.epoch.to_string(), if self.force { "FORCE" } else { "NOFLAG" }, role, "c1", node, "1", XN, X])
                }
            }
        }
    }
}

fn alphabet() -> Vec<Msg> {
    let mut v = vec![];
    for kind in [Kind::Cluster, Kind::Repl] {
        for epoch in 1..=3u64 {
            for force in [false, true] {
                for content in [0u8, 1] {
                    v.push(Msg { kind: kind.clone(), epoch, force, content, wrong_host: false, compressed: false, node: None, mixed: false });
                }
            }
        }
        v.push(Msg { kind: kind.clone(), epoch: 3, force: false, content: 1, wrong_host: true, compressed: false, node: None, mixed: false });
        v.push(Msg { kind: kind.clone(), epoch: 3, force: true, content: 0, wrong_host: true, compressed: false, node: None, mixed: false });
    }
    v.push(Msg { kind: Kind::Cluster, epoch: 2, force: false, content: 1, wrong_host: false, compressed: true, node: None, mixed: false });
    v
}

/// Foreign local-node addresses that resemble the proxy's own host (127.0.0.1): the announce host
/// as a proper prefix / suffix / substring of the foreign host, other spellings, no host at all.
const FOREIGN_NODES: [&str; 12] = [
    "127.0.0.10:6000", "127.0.0.11:6000", "127.0.0.1.example.com:6000", "127.0.0.1x:6000", "127.0.0:6000", "27.0.0.1:6000",
    "x127.0.0.1:6000", "1127.0.0.1:6000", "127.0.0.1 :6000", "localhost:6000", "127.000.000.001:6000", "[::1]:6000",
];

fn host_family() -> Vec<Msg> {
    let mut v = vec![];
    for kind in [Kind::Cluster, Kind::Repl] {
        for node in FOREIGN_NODES {
            for mixed in [false, true] {
                for force in [false, true] {
                    v.push(Msg { kind: kind.clone(), epoch: 3, force, content: 1, wrong_host: true, compressed: false, node: Some(node), mixed });
                }
            }
        }
    }
    v
}

#[derive(Clone, Debug, Default, PartialEq, Eq)]
struct Model {
    ce: u64,
    cc: Option<u8>,
    re: u64,
    rc: Option<u8>,
}

impl Model {
    fn apply(&mut self, m: &Msg) -> &'static str {
        if m.wrong_host {
            return "-ERR_NOT_MY_META";
        }
        match m.kind {
            Kind::Cluster => {
                if m.epoch <= self.ce && !m.force {
                    return "-OLD_EPOCH";
                }
                self.ce = m.epoch;
                self.cc = Some(m.content);
            }
            Kind::Repl => {
                if m.epoch <= self.re && !m.force {
                    return "-OLD_EPOCH";
                }
                self.re = m.epoch;
                self.rc = Some(m.content);
            }
        }
        "+OK"
    }
}

struct Acc {
    viol: Vec<Violation>,
    seqs: usize,
    msgs: usize,
    outcomes: std::collections::BTreeMap<String, usize>,
    final_states: std::collections::BTreeSet<String>,
}

fn add(acc: &mut Acc, key: &str, desc: String, replay: Value) {
    if acc.viol.iter().filter(|v| v.key == key).count() < 2 {
        acc.viol.push(Violation { key: key.into(), desc, replay });
    }
}

async fn run_seqs(seqs: Vec<Vec<usize>>, alpha: Vec<Msg>, k_lo: Vec<u8>, k_hi: Vec<u8>) -> Acc {
    let mut acc = Acc { viol: vec![], seqs: 0, msgs: 0, outcomes: Default::default(), final_states: Default::default() };
    let w = World::new();
    w.add_redis(N1);
    for seq in seqs {
        acc.seqs += 1;
        w.add_proxy(P, &ProxyOpts::default()); // fresh proxy (replaces the old one)
        let mut model = Model::default();
        let labels: Vec<String> = seq.iter().map(|i| alpha[*i].label()).collect();
        for (step, i) in seq.iter().enumerate() {
            let m = &alpha[*i];
            acc.msgs += 1;
            let want = model.apply(m);
            let r = w.client(P, &m.to_cmd()).await;
            w.settle().await;
            let rs = show_resp(&r);
            *acc.outcomes.entry(want.to_string()).or_default() += 1;
            let ctx = json!({"sequence": labels, "step": step, "message": m.label(), "reply": rs, "model": format!("{:?}", model)});
            if rs != want {
                add(&mut acc, &format!("reply-differs:{}-expected{}", if m.kind == Kind::Cluster { "setcluster" } else { "setrepl" }, want), format!("{:?} step {}: {} -> {} expected {}", labels, step, m.label(), rs, want), ctx.clone());
            }
            // observations
            let e = w.client(P, &cmd(&["UMCTL", "GETEPOCH"])).await;
            if show_resp(&e) != format!(":{}", model.ce) {
                add(&mut acc, "reported-epoch-differs", format!("{:?} step {}: GETEPOCH {} expected {}", labels, step, show_resp(&e), model.ce), ctx.clone());
            }
            let mark = w.log_len();
            let r_lo = show_resp(&w.client(P, &vec![b"GET".to_vec(), k_lo.clone()]).await);
            let r_hi = show_resp(&w.client(P, &vec![b"GET".to_vec(), k_hi.clone()]).await);
            w.settle().await;
            let execs = w.events_since(mark).into_iter().filter(|e| e.kind == "redis").count();
            let want_route = match model.cc {
                None => ("-".to_string(), "-".to_string(), 0),
                Some(0) => ("$nil".to_string(), format!("-MOVED 9000 {}", X), 1),
                Some(_) => (format!("-MOVED 100 {}", X), "$nil".to_string(), 1),
            };
            let ok = match model.cc {
                None => r_lo.starts_with('-') && r_hi.starts_with('-') && execs == 0,
                Some(_) => r_lo == want_route.0 && r_hi == want_route.1 && execs == want_route.2,
            };
            if !ok {
                add(&mut acc, "routing-does-not-match-accepted-message", format!("{:?} step {}: probes ({}, {}) with {} local executions; model content {:?} epoch {}", labels, step, r_lo, r_hi, execs, model.cc, model.ce), ctx.clone());
            }
            let ir = show_resp(&w.client(P, &cmd(&["UMCTL", "INFOREPL"])).await);
            let role_ok = match model.rc {
                None => !ir.contains("role:"),
                Some(0) => ir.contains("role:master") && !ir.contains("role:replica"),
                Some(_) => ir.contains("role:replica") && !ir.contains("role:master"),
            };
            if !role_ok {
                add(&mut acc, "replication-role-does-not-match-accepted-message", format!("{:?} step {}: INFOREPL {} ; model role content {:?}", labels, step, ir, model.rc), ctx.clone());
            }
        }
        acc.final_states.insert(format!("{:?}", model));
    }
    acc
}

pub fn run(cli: &Cli) -> (Value, Vec<Violation>) {
    let maxlen = if cli.thorough() { 4 } else { 3 };
    let alpha = alphabet();
    let n = alpha.len();
    let mut seqs: Vec<Vec<usize>> = vec![];
    for len in 1..=maxlen {
        let total = n.pow(len as u32);
        for code in 0..total {
            let mut x = code;
            let mut s = vec![];
            for _ in 0..len {
                s.push(x % n);
                x /= n;
            }
            seqs.push(s);
        }
    }
    // host family: every foreign-host message alone, after every base message, and before every
    // base message (a refused message must leave nothing behind)
    let mut alpha = alpha;
    let base_n = n;
    let fam = host_family();
    let fam_n = fam.len();
    alpha.extend(fam);
    let mut host_seqs = 0usize;
    for f in base_n..base_n + fam_n {
        seqs.push(vec![f]);
        host_seqs += 1;
        for b in 0..base_n {
            if !alpha[b].wrong_host && (cli.thorough() || alpha[b].epoch == 2) {
                seqs.push(vec![b, f]);
                seqs.push(vec![f, b]);
                host_seqs += 2;
            }
        }
    }
    let keys = crate::util::slot_keys();
    let (k_lo, k_hi) = (keys[100].clone(), keys[9000].clone());
    let workers = 16;
    let chunk = (seqs.len() + workers - 1) / workers;
    let mut hs = vec![];
    for (wi, part) in seqs.chunks(chunk).enumerate() {
        let (part, alpha, k_lo, k_hi) = (part.to_vec(), alpha.clone(), k_lo.clone(), k_hi.clone());
        hs.push(std::thread::spawn(move || vh::det::on_fresh_thread(wi as u64 + 1, 32 << 20, move || run_sim(run_seqs(part, alpha, k_lo, k_hi))).expect("worker")));
    }
    let mut viol: Vec<Violation> = vec![];
    let mut nseq = 0;
    let mut nmsg = 0;
    let mut outcomes: std::collections::BTreeMap<String, usize> = Default::default();
    let mut finals: std::collections::BTreeSet<String> = Default::default();
    for h in hs {
        let a = h.join().expect("join");
        nseq += a.seqs;
        nmsg += a.msgs;
        for (k, v) in a.outcomes {
            *outcomes.entry(k).or_default() += v;
        }
        finals.extend(a.final_states);
        for v in a.viol {
            if viol.iter().filter(|x| x.key == v.key).count() < 2 {
                viol.push(v);
            }
        }
    }
    let cov = json!({
        "evaluations": nseq,
        "distinct_nontrivial": nseq,
        "rule": format!("all sequences of length 1..{} over {} messages (SETCLUSTER / SETREPL x epoch 1..3 x force x content A/B, two wrong-host messages per kind, one compressed SETCLUSTER), each on a fresh real proxy; after every message: its reply, UMCTL GETEPOCH, two routing probes, UMCTL INFOREPL are compared with a two-register reference model; all sequences are distinct", maxlen, n),
        "messages_delivered": nmsg,
        "foreign_host_family_sequences": host_seqs,
        "foreign_host_family": "12 foreign local-node addresses resembling the proxy's own host (announce host as prefix / suffix / substring, other spellings) x {alone, behind an own-host node} x force x kind; each alone, after and before every base message",
        "expected_reply_classes": outcomes,
        "distinct_final_model_states": finals.len(),
        "samples": [seqs[seqs.len() / 2].iter().map(|i| alpha[*i].label()).collect::<Vec<_>>()],
        "exhaustive": true,
    });
    (cov, viol)
}
