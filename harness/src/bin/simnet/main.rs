//! simnet — checks driven on real proxies over the harness-owned network (see vh::sim).

use vh::report::*;

mod c02;
mod c03;
mod c05;
mod c07;
mod c09;
mod c13;
mod c19;
mod c20;
mod util;

fn main() {
    let cli = Cli::parse();
    if std::env::var("VH_PANIC").is_err() {
        std::panic::set_hook(Box::new(|_| {}));
    }
    if !vh::det::selftest() {
        machinery_error("hash-seed override (getrandom) is not in effect");
    }
    let mut rep = Report::new(&cli, "model_checking");
    let (level, (cov, viol)) = match cli.prop.as_str() {
        "C02" => ("model_checking", c02::run(&cli, "C02")),
        "C14" => ("model_checking", c02::run(&cli, "C14")),
        "C03" => ("model_checking", c03::run(&cli)),
        "C07" => ("model_checking", c07::run(&cli)),
        "C13" => ("fault_enumeration", c13::run(&cli)),
        "C17" => ("model_checking", c07::run_journey(&cli)),
        "C19" => ("model_checking", c19::run(&cli)),
        "C05" => ("model_checking", c05::run(&cli)),
        "C09" => ("model_checking", c09::run(&cli)),
        "C20" => ("model_checking", c20::run(&cli)),
        _ => machinery_error("simnet serves C09"),
    };
    rep.level = level.to_string();
    rep.assumptions = vec![
        "Redis is replaced by an in-harness stand-in implementing the commands undermoon issues".into(),
        "proxies run on a paused single-threaded tokio runtime; requests to a proxy endpoint are handled one at a time per connection by a harness mini-session".into(),
    ];
    std::process::exit(rep.finish(cov, viol));
}
