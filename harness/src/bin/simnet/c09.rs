//! C09 routing part: every layout over a boundary set x probe keys, on one real proxy.

use crate::util::*;
use serde_json::{json, Value};
use std::sync::Arc;
use vh::report::*;
use vh::sim::*;

const P: &str = "127.0.0.1:7000";
const L1: &str = "127.0.0.1:6000";
const L2: &str = "127.0.0.1:6001";
const X: &str = "127.0.0.2:7000";
const Y: &str = "127.0.0.3:7000";

#[derive(Clone, Copy, PartialEq, Eq, Debug)]
enum Owner {
    L1,
    L2,
    X,
    Y,
    Nobody,
}

fn segments() -> Vec<(usize, usize)> {
    vec![(0, 0), (1, 5459), (5460, 5460), (5461, 16381), (16382, 16382), (16383, 16383)]
}

/// The same ownership can be written in several shapes on the wire: all ranges of a node in one
/// entry (`addr n r1 .. rn`), or one entry per range (`addr 1 r1 addr 1 r2`, what a node looks
/// like after it imported a range next to the one it owned), in ascending or descending order.
const SHAPES: [&str; 3] = ["one-entry-per-node", "one-entry-per-range-ascending", "one-entry-per-range-descending"];

fn layout_args(epoch: u64, owners: &[Owner]) -> Cmd {
    layout_args_shaped(epoch, owners, 0)
}

fn layout_args_shaped(epoch: u64, owners: &[Owner], shape: usize) -> Cmd {
    let segs = segments();
    let mut c = cmd(&["UMCTL", "SETCLUSTER", "v2", &epoch.to_string(), "NOFLAG", "c1"]);
    let ranges = |o: Owner| -> Vec<String> { segs.iter().zip(owners).filter(|(_, w)| **w == o).map(|((a, b), _)| format!("{}-{}", a, b)).collect() };
    let emit = |out: &mut Cmd, addr: &str, mut r: Vec<String>| {
        if r.is_empty() {
            return;
        }
        if shape == 0 {
            out.push(addr.as_bytes().to_vec());
            out.push(r.len().to_string().into_bytes());
            out.extend(r.into_iter().map(|s| s.into_bytes()));
        } else {
            if shape == 2 {
                r.reverse();
            }
            for x in r {
                out.push(addr.as_bytes().to_vec());
                out.push(b"1".to_vec());
                out.push(x.into_bytes());
            }
        }
    };
    for (o, addr) in [(Owner::L1, L1), (Owner::L2, L2)] {
        emit(&mut c, addr, ranges(o));
    }
    let mut peer: Cmd = vec![];
    for (o, addr) in [(Owner::X, X), (Owner::Y, Y)] {
        emit(&mut peer, addr, ranges(o));
    }
    if !peer.is_empty() {
        c.push(b"PEER".to_vec());
        c.extend(peer);
    }
    c
}

struct Acc {
    viol: Vec<Violation>,
    probes: usize,
    layouts: usize,
    outcomes: std::collections::BTreeMap<String, usize>,
}

fn add(acc: &mut Acc, key: &str, desc: String, replay: Value) {
    if acc.viol.iter().filter(|v| v.key == key).count() < 2 {
        acc.viol.push(Violation { key: key.into(), desc, replay });
    }
}

async fn probe_layouts(layouts: Vec<Vec<Owner>>, keys: Arc<Vec<Vec<u8>>>, all_slots: bool, active_redirection: bool) -> Acc {
    let mut acc = Acc { viol: vec![], probes: 0, layouts: 0, outcomes: Default::default() };
    let w = World::new();
    w.add_redis(L1);
    w.add_redis(L2);
    let opts = ProxyOpts { active_redirection, ..Default::default() };
    w.add_proxy(P, &opts);
    let mut epoch = 0u64;
    let cases: Vec<(Vec<Owner>, usize)> = layouts.into_iter().enumerate().flat_map(|(i, l)| if all_slots { vec![(l, i % SHAPES.len())] } else { (0..SHAPES.len()).map(|s| (l.clone(), s)).collect::<Vec<_>>() }).collect();
    for (owners, shape) in cases {
        epoch += 1;
        acc.layouts += 1;
        if epoch % 512 == 0 {
            w.add_proxy(P, &opts); // restart with empty state now and then
        }
        let sc = layout_args_shaped(epoch, &owners, shape);
        let r = w.client(P, &sc).await;
        w.settle().await;
        let has_local = owners.iter().any(|o| matches!(o, Owner::L1 | Owner::L2));
        if show_resp(&r) != "+OK" {
            add(&mut acc, "setcluster-rejected", format!("layout {:?}: SETCLUSTER -> {}", owners, show_resp(&r)), json!({"owners": format!("{:?}", owners), "wire_shape": SHAPES[shape]}));
            continue;
        }
        let _ = has_local;
        let mut slots: Vec<usize> = vec![];
        for (a, b) in segments() {
            slots.push(a);
            slots.push(b);
            if all_slots {
                slots.push((a + b) / 2);
            }
        }
        if all_slots {
            slots = (0..16384).collect();
        }
        slots.sort();
        slots.dedup();
        for slot in slots {
            let key = &keys[slot];
            let seg = segments().iter().position(|(a, b)| *a <= slot && slot <= *b).unwrap();
            let owner = owners[seg];
            let mark = w.log_len();
            let probe = vec![b"GET".to_vec(), key.clone()];
            let reply = w.client(P, &probe).await;
            w.settle().await;
            acc.probes += 1;
            let ev: Vec<Event> = w.events_since(mark).into_iter().filter(|e| e.kind == "redis").collect();
            let rs = show_resp(&reply);
            *acc.outcomes.entry(match owner { Owner::L1 | Owner::L2 => "local", Owner::X | Owner::Y => "peer", Owner::Nobody => "uncovered" }.to_string()).or_default() += 1;
            let ctx = || json!({"owners": format!("{:?}", owners), "wire_shape": SHAPES[shape], "slot": slot, "key": show(key), "reply": rs, "backend_events": ev.iter().map(|e| format!("{} {}", e.at, show_cmd(&e.cmd))).collect::<Vec<_>>()});
            match owner {
                Owner::L1 | Owner::L2 => {
                    let want = if owner == Owner::L1 { L1 } else { L2 };
                    let ok_exec = ev.len() == 1 && ev[0].at == want && ev[0].cmd == probe;
                    if !ok_exec || rs != "$nil" {
                        add(&mut acc, "local-slot-not-executed-on-its-node", format!("slot {} belongs to local node {} but reply {} / backend saw {:?}", slot, want, rs, ev.iter().map(|e| (e.at.clone(), show_cmd(&e.cmd))).collect::<Vec<_>>()), ctx());
                    }
                }
                Owner::X | Owner::Y => {
                    let want = if owner == Owner::X { X } else { Y };
                    if active_redirection {
                        // the proxy forwards itself; the peer does not exist here, so only "no local execution" is judged
                        if !ev.is_empty() {
                            add(&mut acc, "peer-slot-executed-locally", format!("slot {} belongs to {} but executed locally", slot, want), ctx());
                        }
                    } else if rs != format!("-MOVED {} {}", slot, want) || !ev.is_empty() {
                        add(&mut acc, "peer-slot-not-moved-to-its-owner", format!("slot {} belongs to peer {} but reply {} (local executions {})", slot, want, rs, ev.len()), ctx());
                    }
                }
                Owner::Nobody => {
                    if !rs.starts_with('-') || rs.starts_with("-MOVED") || !ev.is_empty() {
                        add(&mut acc, "uncovered-slot-not-an-error", format!("slot {} covered by nobody but reply {} (local executions {})", slot, rs, ev.len()), ctx());
                    }
                }
            }
            // CLUSTER KEYSLOT agrees
            if !all_slots {
                let ks = w.client(P, &vec![b"CLUSTER".to_vec(), b"KEYSLOT".to_vec(), key.clone()]).await;
                if show_resp(&ks) != format!(":{}", slot) {
                    add(&mut acc, "cluster-keyslot-differs", format!("CLUSTER KEYSLOT {} -> {} expected {}", show(key), show_resp(&ks), slot), ctx());
                }
            }
        }
    }
    acc
}

async fn multi_key_shapes() -> Acc {
    let mut acc = Acc { viol: vec![], probes: 0, layouts: 0, outcomes: Default::default() };
    let w = World::new();
    w.add_redis(L1);
    w.add_redis(L2);
    w.add_proxy(P, &ProxyOpts::default());
    // L1: 0-5460, L2: 5461-10000, X: 10001-16383
    let sc = cmd(&["UMCTL", "SETCLUSTER", "v2", "1", "NOFLAG", "c1", L1, "1", "0-5460", L2, "1", "5461-10000", "PEER", X, "1", "10001-16383"]);
    let r = w.client(P, &sc).await;
    assert_eq!(show_resp(&r), "+OK");
    w.settle().await;
    // keys: two in one slot of L1 (hash tag), one in another slot of L1, one on L2, one remote
    let find = |pred: &dyn Fn(usize) -> bool, tag: Option<&str>, skip: usize| -> Vec<u8> {
        let mut n = 0;
        let mut i = 0;
        loop {
            let k = match tag {
                Some(t) => format!("{{{}}}{}", t, i).into_bytes(),
                None => format!("key{}", i).into_bytes(),
            };
            if pred(vh::c09keys::ref_slot(&k)) {
                if n == skip {
                    return k;
                }
                n += 1;
            }
            i += 1;
        }
    };
    let mut t = 0;
    let tag = loop {
        let s = format!("t{}", t);
        if vh::c09keys::ref_slot(s.as_bytes()) <= 5460 {
            break s;
        }
        t += 1;
    };
    let a1 = find(&|_| true, Some(&tag), 0);
    let a2 = find(&|_| true, Some(&tag), 1);
    let sa = vh::c09keys::ref_slot(&a1);
    let b = find(&|s| s <= 5460 && s != sa, None, 0);
    let c = find(&|s| (5461..=10000).contains(&s), None, 0);
    let d = find(&|s| s > 10000, None, 0);
    let k = |v: &Vec<u8>| v.clone();
    let shapes: Vec<(&str, Cmd, bool)> = vec![
        ("MGET same slot", vec![b"MGET".to_vec(), k(&a1), k(&a2)], true),
        ("MGET two slots one node", vec![b"MGET".to_vec(), k(&a1), k(&b)], false),
        ("MGET two nodes", vec![b"MGET".to_vec(), k(&a1), k(&c)], false),
        ("MGET local+remote", vec![b"MGET".to_vec(), k(&a1), k(&d)], false),
        ("MSET same slot", vec![b"MSET".to_vec(), k(&a1), b"1".to_vec(), k(&a2), b"2".to_vec()], true),
        ("MSET two slots", vec![b"MSET".to_vec(), k(&a1), b"1".to_vec(), k(&b), b"2".to_vec()], false),
        ("MSET three keys last differs", vec![b"MSET".to_vec(), k(&a1), b"1".to_vec(), k(&a2), b"2".to_vec(), k(&c), b"3".to_vec()], false),
        ("MSETNX same slot", vec![b"MSETNX".to_vec(), k(&a1), b"1".to_vec(), k(&a2), b"2".to_vec()], true),
        ("MSETNX two nodes", vec![b"MSETNX".to_vec(), k(&a1), b"1".to_vec(), k(&c), b"2".to_vec()], false),
        ("MSETNX three keys last differs", vec![b"MSETNX".to_vec(), k(&a1), b"1".to_vec(), k(&a2), b"2".to_vec(), k(&b), b"3".to_vec()], false),
        ("DEL same slot", vec![b"DEL".to_vec(), k(&a1), k(&a2)], true),
        ("DEL two slots", vec![b"DEL".to_vec(), k(&a1), k(&b)], false),
        ("DEL three keys last differs", vec![b"DEL".to_vec(), k(&a1), k(&a2), k(&c)], false),
        ("EXISTS same slot", vec![b"EXISTS".to_vec(), k(&a1), k(&a2)], true),
        ("EXISTS two nodes", vec![b"EXISTS".to_vec(), k(&a1), k(&c)], false),
        ("EVAL same slot", vec![b"EVAL".to_vec(), b"GETALL".to_vec(), b"2".to_vec(), k(&a1), k(&a2)], true),
        ("EVAL two slots", vec![b"EVAL".to_vec(), b"GETALL".to_vec(), b"2".to_vec(), k(&a1), k(&b)], false),
        ("EVAL three keys last differs", vec![b"EVAL".to_vec(), b"GETALL".to_vec(), b"3".to_vec(), k(&a1), k(&a2), k(&c)], false),
        ("BLPOP two slots", vec![b"BLPOP".to_vec(), k(&a1), k(&b), b"1".to_vec()], false),
        ("BLPOP three keys last differs", vec![b"BLPOP".to_vec(), k(&a1), k(&a2), k(&c), b"1".to_vec()], false),
        ("BRPOP two slots", vec![b"BRPOP".to_vec(), k(&a1), k(&b), b"1".to_vec()], false),
        ("BRPOPLPUSH two slots one node", vec![b"BRPOPLPUSH".to_vec(), k(&a1), k(&b), b"1".to_vec()], false),
        ("BRPOPLPUSH two nodes", vec![b"BRPOPLPUSH".to_vec(), k(&a1), k(&c), b"1".to_vec()], false),
        ("BRPOPLPUSH local source, remote destination", vec![b"BRPOPLPUSH".to_vec(), k(&a1), k(&d), b"1".to_vec()], false),
        ("BZPOPMIN two slots", vec![b"BZPOPMIN".to_vec(), k(&a1), k(&b), b"1".to_vec()], false),
        ("BZPOPMAX two nodes", vec![b"BZPOPMAX".to_vec(), k(&a1), k(&c), b"1".to_vec()], false),
    ];
    for (name, c, allowed) in shapes {
        let mark = w.log_len();
        let reply = w.client(P, &c).await;
        w.settle().await;
        acc.probes += 1;
        let ev: Vec<Event> = w.events_since(mark).into_iter().filter(|e| e.kind == "redis").collect();
        let rs = show_resp(&reply);
        *acc.outcomes.entry(if allowed { "multi-key same slot" } else { "multi-key cross slot" }.to_string()).or_default() += 1;
        let ctx = json!({"shape": name, "cmd": show_cmd(&c), "reply": rs, "backend_events": ev.iter().map(|e| format!("{} {}", e.at, show_cmd(&e.cmd))).collect::<Vec<_>>()});
        if allowed {
            if rs.starts_with('-') || ev.is_empty() || ev.iter().any(|e| e.at != L1) {
                add(&mut acc, "same-slot-multi-key-not-executed-on-owner", format!("{}: reply {} events {:?}", name, rs, ctx["backend_events"]), ctx);
            }
        } else if !rs.starts_with("-ERR_MULTI_SLOTS") || !ev.is_empty() {
            add(&mut acc, "cross-slot-multi-key-not-refused", format!("{}: reply {} and {} backend executions {:?}", name, rs, ev.len(), ctx["backend_events"]), ctx);
        }
    }
    acc
}

pub fn run(cli: &Cli) -> (Value, Vec<Violation>) {
    let thorough = cli.level() >= 1;
    // keys part
    let (kcov, mut viol) = vh::c09keys::run_c09_keys(cli);
    let keys = Arc::new(slot_keys());
    let owners_all = [Owner::L1, Owner::L2, Owner::X, Owner::Y, Owner::Nobody];
    let owners_q = [Owner::L1, Owner::X, Owner::Y, Owner::Nobody];
    let nseg = segments().len();
    let mut layouts: Vec<Vec<Owner>> = vec![];
    let set: &[Owner] = if thorough { &owners_all } else { &owners_q };
    let total = set.len().pow(nseg as u32);
    for code in 0..total {
        let mut x = code;
        let mut l = vec![];
        for _ in 0..nseg {
            l.push(set[x % set.len()]);
            x /= set.len();
        }
        layouts.push(l);
    }
    if !thorough {
        // two local nodes in the quick tier as well: all layouts over {L1, L2, X} on the first four segments
        let s3 = [Owner::L1, Owner::L2, Owner::X];
        for code in 0..81 {
            let mut x = code;
            let mut l = vec![];
            for _ in 0..4 {
                l.push(s3[x % 3]);
                x /= 3;
            }
            l.push(Owner::L2);
            l.push(Owner::Nobody);
            layouts.push(l);
        }
    }
    let workers = 16;
    let chunk = (layouts.len() + workers - 1) / workers;
    let mut hs = vec![];
    for (wi, part) in layouts.chunks(chunk).enumerate() {
        let part = part.to_vec();
        let keys = keys.clone();
        hs.push(std::thread::spawn(move || vh::det::on_fresh_thread(wi as u64 + 1, 32 << 20, move || run_sim(probe_layouts(part, keys, false, false))).expect("worker")));
    }
    let mut accs: Vec<Acc> = hs.into_iter().map(|h| h.join().expect("join")).collect();
    // all-slot sweeps on a sample of layouts (thorough: 200, quick: 4), and active redirection variant
    let sweep: Vec<Vec<Owner>> = layouts.iter().step_by(layouts.len() / [4usize, 200, 1000][cli.level().min(2)]).cloned().collect();
    let mut hs = vec![];
    for (wi, part) in sweep.chunks((sweep.len() + 15) / 16).enumerate() {
        let part = part.to_vec();
        let keys = keys.clone();
        hs.push(std::thread::spawn(move || vh::det::on_fresh_thread(100 + wi as u64, 32 << 20, move || run_sim(probe_layouts(part, keys, true, false))).expect("worker")));
    }
    accs.extend(hs.into_iter().map(|h| h.join().expect("join")));
    {
        let part: Vec<Vec<Owner>> = layouts.iter().step_by(layouts.len() / 64).cloned().collect();
        let keys = keys.clone();
        accs.push(vh::det::on_fresh_thread(999, 32 << 20, move || run_sim(probe_layouts(part, keys, false, true))).expect("worker"));
    }
    accs.push(vh::det::on_fresh_thread(1000, 32 << 20, || run_sim(multi_key_shapes())).expect("worker"));
    let mut probes = 0;
    let mut nl = 0;
    let mut outcomes: std::collections::BTreeMap<String, usize> = Default::default();
    for a in accs {
        probes += a.probes;
        nl += a.layouts;
        for (k, v) in a.outcomes {
            *outcomes.entry(k).or_default() += v;
        }
        for v in a.viol {
            if viol.iter().filter(|x| x.key == v.key).count() < 2 {
                viol.push(v);
            }
        }
    }
    let cov = json!({
        "evaluations": kcov["evaluations"].as_u64().unwrap_or(0) as usize + probes,
        "distinct_nontrivial": kcov["distinct_nontrivial"].as_u64().unwrap_or(0) as usize + probes,
        "rule": "keys: see key part; routing: one real proxy, every assignment (x 3 wire shapes: one entry per node, one entry per range ascending / descending) of the 6 boundary segments {0},{1..5459},{5460},{5461..16381},{16382},{16383} to owners (local nodes, peers, nobody) installed through a real UMCTL SETCLUSTER, probed at first/last slot of every segment (GET + CLUSTER KEYSLOT), all 16384 slots on a sample of layouts, 20 multi-key shapes; each (layout, slot) probe is distinct",
        "key_part": kcov,
        "layouts": nl,
        "routing_probes": probes,
        "probe_outcome_classes": outcomes,
        "samples": [{"layout": format!("{:?}", layouts[layouts.len() / 3]), "setcluster": show_cmd(&layout_args(1, &layouts[layouts.len() / 3]))}],
        "exhaustive": true,
    });
    (cov, viol)
}
