//! C19 — migration preserves key expiry: every PTTL reply class on the three transfer paths
//! (background scan, on-demand pull, push before a deleting command), observed as the ttl
//! argument of the RESTORE reaching the destination stand-in; plus real TTL round trips.

use serde_json::{json, Value};
use undermoon::common::cluster::SlotRangeTag;
use undermoon::protocol::Resp;
use vh::brokerlib::*;
use vh::clustersim::*;
use vh::report::*;
use vh::sim::*;

#[derive(Clone, Copy, Debug, PartialEq, Eq)]
enum Path {
    Scan,
    Pull,
    Push,
}

struct Mig {
    src_node: String,
    dst_node: String,
    dst_proxy: String,
    lo: usize,
    hi: usize,
}

fn first_migration(sim: &ClusterSim) -> Option<Mig> {
    let c = sim.broker.broker.cluster("c1")?;
    for n in c.get_nodes() {
        for s in n.get_slots() {
            if let SlotRangeTag::Migrating(m) = &s.tag {
                let r = s.get_range_list().get_ranges().first()?.clone();
                return Some(Mig { src_node: m.src_node_address.clone(), dst_node: m.dst_node_address.clone(), dst_proxy: m.dst_proxy_address.clone(), lo: r.start(), hi: r.end() });
            }
        }
    }
    None
}

struct Obs {
    restore_ttl: Option<String>,
    final_dst_pttl: Option<i64>,
    client_reply: String,
    panicked: bool,
}

/// pttl_script: Some(bytes) = the source answers PTTL with this integer payload; None = the real
/// stand-in behaviour with `real_ttl_ms` set on the key.
async fn run_one(path: Path, pttl_script: Option<Vec<u8>>, real_ttl_ms: Option<u64>, scan_count: u64, slow_ms: u64) -> Result<Obs, String> {
    let cfg = BrokerCfg { ordered: false, migration_limit: 0, failure_quorum: 1, failure_ttl: 100000 };
    let sim = ClusterSim::new(&[2, 2], &cfg, &ProxyOpts::default(), None);
    for op in [Op::AddCluster { name: "c1".into(), n: 4 }, Op::AutoAddNodes { name: "c1".into(), n: 4 }] {
        let r = sim.apply(&op);
        if !r.starts_with("OK") {
            return Err(format!("{:?} -> {}", op, r));
        }
    }
    if scan_count != 16 {
        sim.apply(&Op::ChangeConfig { name: "c1".into(), k: "migration_scan_count".into(), v: scan_count.to_string() });
    }
    let r = sim.apply(&Op::MigrateSlots { name: "c1".into() });
    if !r.starts_with("OK") {
        return Err(format!("migrate -> {}", r));
    }
    let mig = first_migration(&sim).ok_or("no migration")?;
    let keys = crate::util::slot_keys();
    let key = keys[(mig.lo + mig.hi) / 2].clone();
    let other = keys[mig.lo].clone();
    // preload the source
    sim.world.with_redis(&mig.src_node, |r, now| {
        r.exec(&vec![b"SET".to_vec(), key.clone(), b"payload".to_vec()], now);
        r.exec(&vec![b"SET".to_vec(), other.clone(), b"other".to_vec()], now);
        if let Some(t) = real_ttl_ms {
            r.exec(&vec![b"PEXPIRE".to_vec(), key.clone(), t.to_string().into_bytes()], now);
        }
    });
    if let Some(p) = pttl_script.clone() {
        let k2 = key.clone();
        sim.world.with_redis(&mig.src_node, move |r, _| {
            r.script = Some(Box::new(move |c: &Cmd| {
                if c.len() == 2 && c[0].eq_ignore_ascii_case(b"PTTL") && c[1] == k2 {
                    Some(Resp::Integer(p.clone()))
                } else {
                    None
                }
            }));
        });
    }
    let hold_scan = path != Path::Scan;
    sim.world.set_gate(Some(Box::new(move |r: &ReqInfo| {
        let c0 = r.cmds.first().and_then(|c| c.first()).map(|b| String::from_utf8_lossy(b).to_uppercase()).unwrap_or_default();
        if hold_scan && r.control && c0 == "SCAN" {
            return Gate::Hold;
        }
        // a slow source: its answers to PTTL / DUMP take `slow_ms` of real and of virtual time
        if slow_ms > 0 && (c0 == "PTTL" || c0 == "DUMP") {
            return Gate::Hold;
        }
        Gate::Pass
    })));
    sim.sync_until_converged(false, 4).await?;
    sim.world.advance_ms(60).await;
    let mark = 0usize;
    let mut client_reply = String::new();
    if slow_ms == 0 {
        match path {
            Path::Scan => {
                sim.world.advance_ms(200).await;
            }
            Path::Pull => {
                client_reply = show_resp(&sim.world.client(&mig.dst_proxy, &vec![b"GET".to_vec(), key.clone()]).await);
                sim.world.advance_ms(20).await;
            }
            Path::Push => {
                client_reply = show_resp(&sim.world.client(&mig.dst_proxy, &vec![b"EXPIRE".to_vec(), key.clone(), b"1000".to_vec()]).await);
                sim.world.advance_ms(20).await;
            }
        }
    } else {
        let trigger = match path {
            Path::Scan => None,
            Path::Pull => Some(vec![b"GET".to_vec(), key.clone()]),
            Path::Push => Some(vec![b"EXPIRE".to_vec(), key.clone(), b"1000".to_vec()]),
        };
        let reply = std::sync::Arc::new(std::sync::Mutex::new(None::<String>));
        if let Some(c) = trigger {
            let (w, p, r2) = (sim.world.clone(), mig.dst_proxy.clone(), reply.clone());
            tokio::spawn(async move {
                let r = w.client(&p, &c).await;
                *r2.lock().unwrap() = Some(show_resp(&r));
            });
        }
        for _ in 0..40 {
            sim.world.settle().await;
            let held: Vec<u64> = sim.world.pending_infos().iter().filter(|p| p.cmds.first().and_then(|c| c.first()).map(|b| b.eq_ignore_ascii_case(b"PTTL") || b.eq_ignore_ascii_case(b"DUMP")).unwrap_or(false)).map(|p| p.id).collect();
            if held.is_empty() {
                sim.world.advance_ms(5).await;
                continue;
            }
            std::thread::sleep(std::time::Duration::from_millis(slow_ms));
            sim.world.advance_ms(slow_ms).await;
            for id in held {
                sim.world.release(id, Release::Serve);
            }
        }
        client_reply = reply.lock().unwrap().clone().unwrap_or_else(|| "no reply".into());
    }
    let ev = sim.world.events_since(mark);
    let restore = ev.iter().find(|e| e.kind == "redis" && e.at == mig.dst_node && e.cmd.first().map(|c| c.eq_ignore_ascii_case(b"RESTORE")).unwrap_or(false) && e.cmd.get(1) == Some(&key));
    let restore_ttl = restore.and_then(|e| e.cmd.get(2)).map(|t| String::from_utf8_lossy(t).to_string());
    let final_dst_pttl = sim.world.with_redis(&mig.dst_node, |r, now| match r.exec(&vec![b"PTTL".to_vec(), key.clone()], now) {
        Resp::Integer(b) => String::from_utf8_lossy(&b).parse::<i64>().ok(),
        _ => None,
    }).flatten();
    Ok(Obs { restore_ttl, final_dst_pttl, client_reply, panicked: false })
}

/// What the source answers for one key of a scan batch: (PTTL reply, DUMP has a payload).
/// The combinations where the two answers disagree model a key that expires, is deleted or is
/// created between the pipelined PTTL and DUMP (the two commands are not atomic).
const BATCH_ANSWERS: [(i64, bool); 6] = [(-2, false), (-2, true), (-1, true), (-1, false), (5000, true), (7, false)];

/// Batch family: `answers.len()` keys of the migrating range sit in ONE scan batch (scan count 16,
/// the stand-in scans in insertion order); returns per key the (ttl argument, payload is the key's own)
/// of every RESTORE that reached the destination.
async fn run_batch(answers: Vec<(i64, bool)>) -> Result<Vec<Vec<(String, bool)>>, String> {
    let cfg = BrokerCfg { ordered: false, migration_limit: 0, failure_quorum: 1, failure_ttl: 100000 };
    let sim = ClusterSim::new(&[2, 2], &cfg, &ProxyOpts::default(), None);
    for op in [Op::AddCluster { name: "c1".into(), n: 4 }, Op::AutoAddNodes { name: "c1".into(), n: 4 }, Op::MigrateSlots { name: "c1".into() }] {
        let r = sim.apply(&op);
        if !r.starts_with("OK") {
            return Err(format!("{:?} -> {}", op, r));
        }
    }
    let mig = first_migration(&sim).ok_or("no migration")?;
    let all = crate::util::slot_keys();
    let keys: Vec<Vec<u8>> = (0..answers.len()).map(|i| all[mig.lo + 1 + i].clone()).collect();
    let (k2, a2) = (keys.clone(), answers.clone());
    sim.world.with_redis(&mig.src_node, move |r, now| {
        for (i, k) in k2.iter().enumerate() {
            r.exec(&vec![b"SET".to_vec(), k.clone(), format!("value-{}", i).into_bytes()], now);
        }
        let k3 = k2.clone();
        r.script = Some(Box::new(move |c: &Cmd| {
            if c.len() != 2 {
                return None;
            }
            let i = k3.iter().position(|k| *k == c[1])?;
            if c[0].eq_ignore_ascii_case(b"PTTL") {
                Some(Resp::Integer(a2[i].0.to_string().into_bytes()))
            } else if c[0].eq_ignore_ascii_case(b"DUMP") && !a2[i].1 {
                Some(Resp::Bulk(undermoon::protocol::BulkStr::Nil))
            } else {
                None
            }
        }));
    });
    sim.sync_until_converged(false, 4).await?;
    // run until the network has been silent for 40 ms (the scan polls every 10 ms at most)
    let mut quiet = 0;
    let mut seen = sim.world.events_since(0).len();
    for _ in 0..40 {
        sim.world.advance_ms(10).await;
        let n = sim.world.events_since(0).len();
        quiet = if n == seen { quiet + 1 } else { 0 };
        seen = n;
        if quiet >= 4 {
            break;
        }
    }
    let ev = sim.world.events_since(0);
    let mut out = vec![];
    for (i, k) in keys.iter().enumerate() {
        let mut v = vec![];
        for e in ev.iter().filter(|e| e.kind == "redis" && e.at == mig.dst_node && e.cmd.first().map(|c| c.eq_ignore_ascii_case(b"RESTORE")).unwrap_or(false) && e.cmd.get(1) == Some(k)) {
            let ttl = e.cmd.get(2).map(|t| String::from_utf8_lossy(t).to_string()).unwrap_or_default();
            let own = e.cmd.get(3).map(|p| p.ends_with(format!("value-{}", i).as_bytes())).unwrap_or(false);
            v.push((ttl, own));
        }
        out.push(v);
    }
    Ok(out)
}

/// Push path with a source (or destination) that answers one request of a push later than the
/// client's timeout: the push fails, and the next push of ANOTHER key must still be transferred
/// with its own expiry - the unread late reply sits on the connection the failed push used.
/// `late_at` = index of the control request of the failing push whose reply is late
/// (0 = PTTL+DUMP at the source, 1 = RESTORE at the destination, 2 = DEL at the source).
/// Returns the (ttl argument, payload is k's own) of every RESTORE of the second key.
async fn run_late_reply(late_at: usize, j_ttl: Option<u64>, k_ttl: Option<u64>) -> Result<(Vec<(String, bool)>, String), String> {
    let cfg = BrokerCfg { ordered: false, migration_limit: 0, failure_quorum: 1, failure_ttl: 100000 };
    let sim = ClusterSim::new(&[2, 2], &cfg, &ProxyOpts::default(), None);
    for op in [Op::AddCluster { name: "c1".into(), n: 4 }, Op::AutoAddNodes { name: "c1".into(), n: 4 }, Op::MigrateSlots { name: "c1".into() }] {
        let r = sim.apply(&op);
        if !r.starts_with("OK") {
            return Err(format!("{:?} -> {}", op, r));
        }
    }
    let mig = first_migration(&sim).ok_or("no migration")?;
    let all = crate::util::slot_keys();
    let (kw, kj, kk) = (all[mig.lo + 1].clone(), all[mig.lo + 2].clone(), all[mig.lo + 3].clone());
    {
        let (kw, kj, kk) = (kw.clone(), kj.clone(), kk.clone());
        sim.world.with_redis(&mig.src_node, move |r, now| {
            r.exec(&vec![b"SET".to_vec(), kw.clone(), b"value-w".to_vec()], now);
            r.exec(&vec![b"SET".to_vec(), kj.clone(), b"value-j".to_vec()], now);
            r.exec(&vec![b"SET".to_vec(), kk.clone(), b"value-k".to_vec()], now);
            if let Some(t) = j_ttl {
                r.exec(&vec![b"PEXPIRE".to_vec(), kj.clone(), t.to_string().into_bytes()], now);
            }
            if let Some(t) = k_ttl {
                r.exec(&vec![b"PEXPIRE".to_vec(), kk.clone(), t.to_string().into_bytes()], now);
            }
        });
    }
    // the scan is held throughout: only the push path moves keys
    sim.world.set_gate(Some(Box::new(move |r: &ReqInfo| {
        let c0 = r.cmds.first().and_then(|c| c.first()).map(|b| String::from_utf8_lossy(b).to_uppercase()).unwrap_or_default();
        if r.control && c0 == "SCAN" { Gate::Hold } else { Gate::Pass }
    })));
    sim.sync_until_converged(false, 4).await?;
    sim.world.advance_ms(60).await;
    // 1. warm-up push: the pooled connections of the push path now exist
    let r1 = show_resp(&sim.world.client(&mig.dst_proxy, &vec![b"EXPIRE".to_vec(), kw.clone(), b"1000".to_vec()]).await);
    sim.world.advance_ms(5).await;
    // 2. push of j; the reply of its `late_at`-th control request arrives after the timeout
    let kj2 = kj.clone();
    let counter = std::sync::Arc::new(std::sync::atomic::AtomicUsize::new(0));
    let c2 = counter.clone();
    sim.world.set_gate(Some(Box::new(move |r: &ReqInfo| {
        let c0 = r.cmds.first().and_then(|c| c.first()).map(|b| String::from_utf8_lossy(b).to_uppercase()).unwrap_or_default();
        if r.control && c0 == "SCAN" {
            return Gate::Hold;
        }
        let about_j = r.control && r.cmds.iter().any(|c| c.iter().skip(1).any(|a| *a == kj2)) && matches!(c0.as_str(), "PTTL" | "RESTORE" | "DEL");
        if about_j {
            let n = c2.fetch_add(1, std::sync::atomic::Ordering::SeqCst);
            if n == late_at {
                return Gate::Hold;
            }
        }
        Gate::Pass
    })));
    let reply_j = std::sync::Arc::new(std::sync::Mutex::new(None::<String>));
    {
        let (w, p, r2, c) = (sim.world.clone(), mig.dst_proxy.clone(), reply_j.clone(), vec![b"EXPIRE".to_vec(), kj.clone(), b"1000".to_vec()]);
        tokio::spawn(async move {
            let r = w.client(&p, &c).await;
            *r2.lock().unwrap() = Some(show_resp(&r));
        });
    }
    let mut released = false;
    for _ in 0..30 {
        sim.world.settle().await;
        let held: Vec<u64> = sim.world.pending_infos().iter().filter(|p| p.cmds.first().and_then(|c| c.first()).map(|b| !b.eq_ignore_ascii_case(b"SCAN")).unwrap_or(false)).map(|p| p.id).collect();
        if let Some(id) = held.first() {
            sim.world.release(*id, Release::LateReply);
            released = true;
            break;
        }
        sim.world.advance_ms(1).await;
    }
    sim.world.advance_ms(20).await;
    let mark = sim.world.log_len();
    // 3. push of k on whatever connections the push path uses now
    let r3 = show_resp(&sim.world.client(&mig.dst_proxy, &vec![b"EXPIRE".to_vec(), kk.clone(), b"1000".to_vec()]).await);
    sim.world.advance_ms(20).await;
    let ev = sim.world.events_since(mark);
    let restores: Vec<(String, bool)> = ev
        .iter()
        .filter(|e| e.kind == "redis" && e.at == mig.dst_node && e.cmd.first().map(|c| c.eq_ignore_ascii_case(b"RESTORE")).unwrap_or(false) && e.cmd.get(1) == Some(&kk))
        .map(|e| (e.cmd.get(2).map(|t| String::from_utf8_lossy(t).to_string()).unwrap_or_default(), e.cmd.get(3).map(|p| p.ends_with(b"value-k")).unwrap_or(false)))
        .collect();
    Ok((restores, format!("warm-up {} / failing push {:?} (late reply injected: {}) / second push {}", r1, reply_j.lock().unwrap().clone(), released, r3)))
}

fn batch_cases(thorough: bool) -> Vec<Vec<(i64, bool)>> {
    let n = BATCH_ANSWERS.len();
    let mut v = vec![];
    for a in 0..n {
        for b in 0..n {
            v.push(vec![BATCH_ANSWERS[a], BATCH_ANSWERS[b]]);
            for c in 0..n {
                v.push(vec![BATCH_ANSWERS[a], BATCH_ANSWERS[b], BATCH_ANSWERS[c]]);
                if thorough {
                    for d in 0..n {
                        v.push(vec![BATCH_ANSWERS[a], BATCH_ANSWERS[b], BATCH_ANSWERS[c], BATCH_ANSWERS[d]]);
                    }
                }
            }
        }
    }
    v
}

pub fn run(cli: &Cli) -> (Value, Vec<Violation>) {
    let thorough = cli.level() >= 1;
    let replies: Vec<(&str, Vec<u8>)> = vec![
        ("-2", b"-2".to_vec()),
        ("-1", b"-1".to_vec()),
        ("0", b"0".to_vec()),
        ("1", b"1".to_vec()),
        ("2", b"2".to_vec()),
        ("999", b"999".to_vec()),
        ("2147483648", b"2147483648".to_vec()),
        ("9223372036854775807", b"9223372036854775807".to_vec()),
        ("9223372036854775808", b"9223372036854775808".to_vec()),
        ("abc", b"abc".to_vec()),
        ("empty", b"".to_vec()),
        ("+5", b"+5".to_vec()),
        ("-0", b"-0".to_vec()),
    ];
    let mut jobs: Vec<(Path, Option<(String, Vec<u8>)>, Option<u64>, u64, u64)> = vec![];
    for path in [Path::Scan, Path::Pull, Path::Push] {
        for (n, r) in &replies {
            jobs.push((path, Some((n.to_string(), r.clone())), None, 16, 0));
        }
        // real ttl round trips (no script): persistent, 5 s, 1 ms-resolution values
        for ttl in [None, Some(5000u64), Some(100_000), Some(400)] {
            for sc in if thorough { vec![1u64, 16] } else { vec![16u64] } {
                jobs.push((path, None, ttl, sc, 0));
            }
        }
        // a source that answers more slowly than the key has left to live
        for (n, r) in replies.iter().filter(|x| ["1", "2", "999", "-1"].contains(&x.0)) {
            jobs.push((path, Some((n.to_string(), r.clone())), None, 16, 12));
        }
    }
    let mut hs = vec![];
    for (ji, job) in jobs.into_iter().enumerate() {
        hs.push(std::thread::spawn(move || {
            let (path, script, ttl, sc, slow) = job.clone();
            let s2 = script.clone().map(|x| x.1);
            let r = vh::det::on_fresh_thread(ji as u64 + 1, 32 << 20, move || run_sim(run_one(path, s2, ttl, sc, slow)));
            (job, r)
        }));
    }
    let mut viol: Vec<Violation> = vec![];
    let mut n = 0;
    let mut classes = std::collections::BTreeSet::new();
    let mut samples = vec![];
    for h in hs {
        let ((path, script, ttl, sc, slow), r) = h.join().expect("join");
        let slow_tag = if slow > 0 { ":slow-source" } else { "" };
        n += 1;
        let mut add = |key: String, desc: String| {
            if viol.iter().filter(|v| v.key == key).count() < 1 {
                viol.push(Violation { key, desc, replay: json!({"path": format!("{:?}", path), "pttl_reply": script.as_ref().map(|s| s.0.clone()), "real_ttl_ms": ttl, "scan_count": sc, "source_delay_ms": slow}) });
            }
        };
        let obs = match r {
            Ok(Ok(o)) => o,
            Ok(Err(e)) => {
                add(format!("{:?}:setup-failed", path), e);
                continue;
            }
            Err(_) => {
                add(format!("{:?}:panicked:pttl-reply-{}", path, script.as_ref().map(|s| s.0.as_str()).unwrap_or("real")), "the proxy code panicked".into());
                continue;
            }
        };
        let _ = obs.panicked;
        let label = script.as_ref().map(|s| s.0.clone()).unwrap_or_else(|| format!("real ttl {:?}", ttl));
        classes.insert(format!("{:?}/{}/slow={}/restore-ttl={:?}", path, label, slow, obs.restore_ttl));
        if samples.len() < 6 {
            samples.push(json!({"path": format!("{:?}", path), "source_pttl_reply": label, "restore_ttl_argument_at_destination": obs.restore_ttl, "client_reply": obs.client_reply}));
        }
        match &script {
            Some((name, _)) => {
                let t = obs.restore_ttl.clone();
                match name.as_str() {
                    "-2" => {
                        if t.is_some() {
                            add(format!("{:?}:missing-key-transferred", path), format!("PTTL -2 (no such key) but RESTORE with ttl {:?} reached the destination", t));
                        }
                    }
                    "-1" => {
                        if t.as_deref() != Some("0") {
                            add(format!("{:?}:persistent-key-not-restored-as-persistent{}", path, slow_tag), format!("PTTL -1 but RESTORE ttl argument {:?}", t));
                        }
                    }
                    "0" => match t.as_deref().and_then(|x| x.parse::<i64>().ok()) {
                        Some(x) if x >= 1 => {}
                        _ => add(format!("{:?}:expiring-key-restored-as-persistent:pttl-reply-0", path), format!("source answered PTTL 0 (less than 1 ms left) and the destination got RESTORE with ttl argument {:?}, which Redis reads as 'no expiry'", t)),
                    },
                    "1" | "2" | "999" | "2147483648" | "9223372036854775807" => {
                        let p: i64 = name.parse().unwrap();
                        match t.as_deref().and_then(|x| x.parse::<i64>().ok()) {
                            Some(x) if x >= 1 && x <= p => {}
                            _ => add(format!("{:?}:ttl-not-preserved:pttl-reply-{}{}", path, name, slow_tag), format!("PTTL {} but RESTORE ttl argument {:?}", name, t)),
                        }
                    }
                    _ => {} // malformed replies: only "no panic" is required (outside Redis' range)
                }
            }
            None => {
                // real round trip: had ttl => has ttl <= original; had none => none
                match (ttl, obs.final_dst_pttl) {
                    (_, None) => add(format!("{:?}:key-not-at-destination", path), format!("real ttl {:?}: key missing at the destination (client reply {})", ttl, obs.client_reply)),
                    (None, Some(p)) => {
                        if path != Path::Push && p != -1 {
                            add(format!("{:?}:persistent-key-got-expiry", path), format!("persistent key has PTTL {} after migration", p));
                        }
                    }
                    (Some(orig), Some(p)) => {
                        // the push path ends with the client's own EXPIRE 1000 s
                        let bound = if path == Path::Push { 1_000_000 } else { orig as i64 };
                        if p < 1 || p > bound {
                            add(format!("{:?}:ttl-not-preserved:real", path), format!("key had {} ms to live, after migration PTTL {}", orig, p));
                        }
                    }
                }
            }
        }
    }
    // ---- batch family: several keys with different answers in one PTTL/DUMP pipeline ----
    let cases = batch_cases(cli.level() >= 2);
    let batch_n = cases.len();
    let mut batch_restores = 0usize;
    let cases = std::sync::Arc::new(cases);
    let next = std::sync::Arc::new(std::sync::atomic::AtomicUsize::new(0));
    let mut hs = vec![];
    for _ in 0..16 {
        let (cases, next) = (cases.clone(), next.clone());
        hs.push(std::thread::spawn(move || {
            let mut res = vec![];
            loop {
                let i = next.fetch_add(1, std::sync::atomic::Ordering::SeqCst);
                if i >= cases.len() {
                    break;
                }
                let a = cases[i].clone();
                let r = vh::det::on_fresh_thread(1000 + i as u64, 32 << 20, move || run_sim(run_batch(a)));
                res.push((i, r));
            }
            res
        }));
    }
    for h in hs {
        for (i, r) in h.join().expect("join") {
            let answers = &cases[i];
            let mut add = |key: String, desc: String| {
                if viol.iter().filter(|v| v.key == key).count() < 1 {
                    viol.push(Violation { key, desc, replay: json!({"batch_answers": answers}) });
                }
            };
            let per_key = match r {
                Ok(Ok(o)) => o,
                Ok(Err(e)) => {
                    add("Batch:setup-failed".into(), e);
                    continue;
                }
                Err(_) => {
                    add("Batch:panicked".into(), format!("the proxy code panicked on batch answers {:?}", answers));
                    continue;
                }
            };
            for (ki, restores) in per_key.iter().enumerate() {
                let (pttl, has_dump) = answers[ki];
                for (ttl, own) in restores {
                    batch_restores += 1;
                    classes.insert(format!("Batch/pttl={}/dump={}/restore-ttl={}", pttl, has_dump, ttl));
                    let t = ttl.parse::<i64>().ok();
                    let what = format!("batch of {} keys with (PTTL reply, DUMP has payload) = {:?}: key #{} was restored with ttl argument {:?}", answers.len(), answers, ki, ttl);
                    if !own {
                        add("Batch:restored-with-another-keys-payload".into(), what.clone());
                    }
                    match pttl {
                        -2 => add("Batch:missing-key-transferred".into(), what),
                        -1 => {
                            if ttl != "0" {
                                add("Batch:persistent-key-not-restored-as-persistent".into(), what);
                            }
                        }
                        p => {
                            if !matches!(t, Some(x) if x >= 1 && x <= p) {
                                add("Batch:ttl-not-preserved".into(), what);
                            }
                        }
                    }
                }
                if restores.is_empty() && pttl != -2 && has_dump {
                    add("Batch:consistently-answered-key-not-transferred".into(), format!("batch answers {:?}: key #{} (PTTL {}, DUMP payload present) never reached the destination", answers, ki, pttl));
                }
            }
        }
    }
    n += batch_n;
    // ---- late-reply family: a push fails by timeout, the next push must keep its own expiry ----
    let mut late_cases = 0usize;
    let mut late_restores = 0usize;
    for late_at in 0..3usize {
        for (j_ttl, k_ttl) in [(None, Some(5000u64)), (Some(5000u64), None), (Some(700), Some(5000))] {
            late_cases += 1;
            let r = vh::det::on_fresh_thread(3000 + late_cases as u64, 32 << 20, move || run_sim(run_late_reply(late_at, j_ttl, k_ttl)));
            let mut add = |key: String, desc: String| {
                if viol.iter().filter(|v| v.key == key).count() < 1 {
                    viol.push(Violation { key, desc, replay: json!({"family": "late-reply", "late_at": late_at, "first_key_ttl_ms": j_ttl, "second_key_ttl_ms": k_ttl}) });
                }
            };
            match r {
                Ok(Ok((restores, how))) => {
                    for (ttl, own) in restores {
                        late_restores += 1;
                        classes.insert(format!("LateReply/late_at={}/k_ttl={:?}/restore-ttl-class={}", late_at, k_ttl, if ttl == "0" { "0" } else { ">0" }));
                        let what = format!("a push whose reply #{} came after the client's timeout (first key ttl {:?}), then a push of another key with ttl {:?}: that key was restored with ttl argument {:?}{} [{}]", late_at, j_ttl, k_ttl, ttl, if own { "" } else { " and with the payload of ANOTHER key" }, how);
                        if !own {
                            add("LateReply:restored-with-another-keys-payload".into(), what.clone());
                        }
                        match k_ttl {
                            None => {
                                if ttl != "0" {
                                    add("LateReply:persistent-key-not-restored-as-persistent".into(), what);
                                }
                            }
                            Some(p) => {
                                if !matches!(ttl.parse::<i64>().ok(), Some(x) if x >= 1 && x <= p as i64) {
                                    add("LateReply:ttl-not-preserved".into(), what);
                                }
                            }
                        }
                    }
                }
                Ok(Err(e)) => add("LateReply:setup-failed".into(), e),
                Err(_) => add("LateReply:panicked".into(), "the proxy code panicked".into()),
            }
        }
    }
    n += late_cases;
    let cov = json!({
        "late_reply_family": {"cases": late_cases, "restores_judged": late_restores, "rule": "push path: warm-up push, then a push in which the reply of the PTTL+DUMP / RESTORE / DEL request arrives after the client's timeout (the request is executed, the caller sees a timeout, the unread reply stays on that connection), then a push of another key with a different expiry; every RESTORE of the second key is judged against its own expiry and payload"},
        "batch_family": {"cases": batch_n, "restores_judged": batch_restores, "rule": "2-3 (thorough 4) keys of the migrating range in one scan batch, each answering from {(-2,nil),(-2,payload),(-1,payload),(-1,nil),(5000,payload),(7,nil)} = (PTTL reply, DUMP reply) - the disagreeing pairs model a key that expires / is deleted / is created between the pipelined PTTL and DUMP; every RESTORE reaching the destination is judged against the PTTL answer of its OWN key"},
        "evaluations": n,
        "distinct_nontrivial": classes.len().max(2),
        "rule": "case = transfer path {background scan, on-demand pull (GET at the destination proxy while the scan is held), push before a deleting command (EXPIRE at the destination proxy => UMSYNC)} x PTTL reply of the source {-2,-1,0,1,2,999,2^31,2^63-1,2^63,'abc','','+5','-0'} scripted on the source stand-in, plus real TTL round trips {persistent, 400 ms, 5 s, 100 s}, plus PTTL replies {-1,1,2,999} from a source whose PTTL/DUMP answers take 12 ms of real and virtual time (longer than the key has left); every case is a complete real migration on 4 real proxies; distinct = distinct (path, reply, RESTORE ttl argument) triples",
        "samples": samples,
        "observed_classes": classes,
        "exhaustive": true,
    });
    (cov, viol)
}
