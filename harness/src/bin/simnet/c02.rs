//! C02 (routing of synced proxies) and C14 (CLUSTER NODES / SLOTS) over broker states x encoding x
//! migration limit x migration phase, with the real coordinator sync path.

use crate::util::*;
use serde_json::{json, Value};
use std::collections::{BTreeMap, BTreeSet, HashSet};
use std::sync::Arc;
use undermoon::common::cluster::{Role, SlotRangeTag};
use undermoon::protocol::{Array, BulkStr, Resp, RespVec};
use undermoon::proxy::service::ClusterNodesVersion;
use vh::brokerlib::*;
use vh::clustersim::*;
use vh::report::*;
use vh::sim::*;

#[derive(Clone, Copy, Debug, PartialEq, Eq)]
pub enum Phase {
    A, // nothing of the handshake served: both sides PreCheck
    C, // PRECHECK + PRESWITCH served, scan held: Scanning / PreSwitch
    D, // everything served: SwitchCommitted on both sides
}

fn projection(snap: &Value) -> String {
    let mut s = snap.clone();
    map_epochs(&mut s, &|_| 0);
    if let Some(o) = s.as_object_mut() {
        o.remove("failures");
    }
    s.to_string()
}

/// Broker states reachable by operation sequences (deduplicated on the routing-relevant projection).
pub fn gen_states(counts: &[usize], depth: usize, cap: usize) -> Vec<(Value, Vec<String>)> {
    let cfg = BrokerCfg { ordered: false, migration_limit: 0, failure_quorum: 1, failure_ttl: 100000 };
    let b = Broker::empty(&cfg);
    let layout = ip_layout(counts);
    for (i, (addr, host, nodes)) in layout.iter().enumerate() {
        let p = serde_json::from_value(register_op(addr, host, nodes, i)).unwrap();
        futures::executor::block_on(b.svc.add_proxy(p)).expect("add_proxy");
    }
    let init = b.snapshot();
    let mut seen: HashSet<String> = HashSet::new();
    seen.insert(projection(&init));
    let mut frontier: Vec<(Value, Vec<String>)> = vec![(init, vec![])];
    let mut out: Vec<(Value, Vec<String>)> = vec![];
    for _ in 0..depth {
        let mut next = vec![];
        for (snap, path) in &frontier {
            let b = Broker::from_snapshot(&cfg, 0, snap).expect("restore");
            let mut ops: Vec<Op> = vec![];
            let names = cluster_names(snap);
            if names.is_empty() {
                ops.push(Op::AddCluster { name: "c1".into(), n: 4 });
                ops.push(Op::AddCluster { name: "c1".into(), n: 8 });
            } else {
                ops.push(Op::AutoAddNodes { name: "c1".into(), n: 4 });
                ops.push(Op::MigrateSlots { name: "c1".into() });
                ops.push(Op::ScaleDown { name: "c1".into(), n: 4 });
                ops.push(Op::Balance { name: "c1".into() });
                if let Some(c) = b.cluster("c1") {
                    for t in migrating_tasks(&c) {
                        ops.push(Op::Commit { task: serde_json::to_string(&t).unwrap() });
                    }
                    let members: BTreeSet<String> = c.get_nodes().iter().map(|n| n.get_proxy_address().to_string()).collect();
                    for m in members {
                        ops.push(Op::Failover { addr: m });
                    }
                }
            }
            for op in ops {
                let b2 = Broker::from_snapshot(&cfg, 0, snap).expect("restore");
                let r = b2.apply(&op);
                if !r.starts_with("OK") {
                    continue;
                }
                let s2 = b2.snapshot();
                if seen.insert(projection(&s2)) {
                    let mut p2 = path.clone();
                    p2.push(format!("{:?}", op).chars().take(60).collect());
                    if !cluster_names(&s2).is_empty() {
                        out.push((s2.clone(), p2.clone()));
                    }
                    next.push((s2, p2));
                }
                if out.len() >= cap {
                    return out;
                }
            }
        }
        frontier = next;
    }
    out
}

#[derive(Clone, Debug)]
struct SlotInfo {
    owner_node: String,
    owner_proxy: String,
    mig: Option<(String, String, String, String)>, // src node, src proxy, dst node, dst proxy
}

fn expected(sim: &ClusterSim) -> Option<Vec<Option<SlotInfo>>> {
    let c = sim.broker.broker.cluster("c1")?;
    let mut v: Vec<Option<SlotInfo>> = vec![None; 16384];
    for n in c.get_nodes() {
        if n.get_role() != Role::Master {
            continue;
        }
        for s in n.get_slots() {
            let mig = match &s.tag {
                SlotRangeTag::Migrating(m) => Some((m.src_node_address.clone(), m.src_proxy_address.clone(), m.dst_node_address.clone(), m.dst_proxy_address.clone())),
                SlotRangeTag::None => None,
                SlotRangeTag::Importing(_) => continue,
            };
            for r in s.get_range_list().get_ranges() {
                for slot in r.start()..=r.end().min(16383) {
                    v[slot] = Some(SlotInfo { owner_node: n.get_address().to_string(), owner_proxy: n.get_proxy_address().to_string(), mig: mig.clone() });
                }
            }
        }
    }
    Some(v)
}

pub struct Case {
    pub snap: Value,
    pub path: Vec<String>,
    pub counts: Vec<usize>,
    pub limit: u64,
    pub compress: bool,
    pub phase: Phase,
    pub version: ClusterNodesVersion,
    pub all_slots: bool,
    /// visit the phases A -> C -> D on the same proxies (topology queried in every phase)
    pub walk: bool,
}

struct CaseOut {
    probes: usize,
    viol: Vec<(String, String)>,
    sig: String,
}

fn is_moved(r: &RespVec) -> Option<(usize, String)> {
    if let Resp::Error(e) = r {
        let s = String::from_utf8_lossy(e);
        let mut it = s.split(' ');
        if it.next() == Some("MOVED") {
            let slot = it.next()?.parse().ok()?;
            let addr = it.next()?.to_string();
            return Some((slot, addr));
        }
    }
    None
}

fn parse_nodes(s: &str) -> Result<(BTreeMap<usize, String>, BTreeMap<String, String>), String> {
    // slot -> address, address -> id
    let mut m = BTreeMap::new();
    let mut ids = BTreeMap::new();
    for line in s.lines() {
        let f: Vec<&str> = line.split(' ').collect();
        if f.len() < 8 {
            return Err(format!("short line {:?}", line));
        }
        let addr = f[1].split('@').next().unwrap_or("").to_string();
        ids.insert(addr.clone(), f[0].to_string());
        for r in &f[8..] {
            if r.is_empty() {
                continue;
            }
            let (a, b) = match r.split_once('-') {
                Some((a, b)) => (a.parse::<usize>().map_err(|_| "bad range")?, b.parse::<usize>().map_err(|_| "bad range")?),
                None => {
                    let a = r.parse::<usize>().map_err(|_| format!("bad slot {:?}", r))?;
                    (a, a)
                }
            };
            for slot in a..=b {
                if let Some(prev) = m.insert(slot, addr.clone()) {
                    return Err(format!("slot {} listed under {} and {}", slot, prev, addr));
                }
            }
        }
    }
    Ok((m, ids))
}

fn parse_slots(r: &RespVec) -> Result<(BTreeMap<usize, String>, BTreeMap<String, String>), String> {
    let mut m = BTreeMap::new();
    let mut ids = BTreeMap::new();
    let arr = match r {
        Resp::Arr(Array::Arr(a)) => a,
        other => return Err(format!("not an array: {}", show_resp(other))),
    };
    for e in arr {
        let f = match e {
            Resp::Arr(Array::Arr(f)) if f.len() >= 3 => f,
            _ => return Err("bad entry".into()),
        };
        let num = |x: &RespVec| -> Option<usize> {
            match x {
                Resp::Integer(b) => String::from_utf8_lossy(b).parse().ok(),
                _ => None,
            }
        };
        let (a, b) = (num(&f[0]).ok_or("bad start")?, num(&f[1]).ok_or("bad end")?);
        let node = match &f[2] {
            Resp::Arr(Array::Arr(n)) if n.len() >= 3 => n,
            _ => return Err("bad node".into()),
        };
        let host = match &node[0] {
            Resp::Bulk(BulkStr::Str(h)) => String::from_utf8_lossy(h).to_string(),
            _ => return Err("bad host".into()),
        };
        let port = num(&node[1]).ok_or("bad port")?;
        let id = match &node[2] {
            Resp::Bulk(BulkStr::Str(h)) => String::from_utf8_lossy(h).to_string(),
            _ => return Err("bad id".into()),
        };
        let addr = format!("{}:{}", host, port);
        ids.insert(addr.clone(), id);
        for slot in a..=b {
            if let Some(prev) = m.insert(slot, addr.clone()) {
                return Err(format!("slot {} listed under {} and {}", slot, prev, addr));
            }
        }
    }
    Ok((m, ids))
}

async fn run_case(case: &Case, keys: Arc<Vec<Vec<u8>>>, prop: &str, tag: usize) -> CaseOut {
    let mut viol: Vec<(String, String)> = vec![];
    let cfg = BrokerCfg { ordered: false, migration_limit: case.limit, failure_quorum: 1, failure_ttl: 100000 };
    let opts = ProxyOpts { nodes_version: case.version, ..Default::default() };
    let sim = ClusterSim::new(&case.counts, &cfg, &opts, Some(&case.snap));
    let failed: BTreeSet<String> = sim.broker.broker.failed_proxies().into_iter().collect();
    {
        let mut st = sim.world.0.st.lock().unwrap();
        for f in &failed {
            st.down.insert(f.clone());
        }
    }
    let cur_phase = Arc::new(std::sync::Mutex::new(case.phase));
    let cp = cur_phase.clone();
    sim.world.set_gate(Some(Box::new(move |r: &ReqInfo| {
        let phase = *cp.lock().unwrap();
        let name = |i: usize| r.cmds.first().and_then(|c| c.get(i)).map(|b| String::from_utf8_lossy(b).to_uppercase()).unwrap_or_default();
        if !r.control {
            return Gate::Pass;
        }
        let (c0, c1) = (name(0), name(1));
        match phase {
            Phase::A => {
                if c0 == "UMCTL" && (c1 == "PRECHECK" || c1 == "PRESWITCH" || c1 == "FINALSWITCH") {
                    return Gate::Hold;
                }
            }
            Phase::C => {
                if c0 == "SCAN" || (c0 == "UMCTL" && c1 == "FINALSWITCH") {
                    return Gate::Hold;
                }
            }
            Phase::D => {}
        }
        Gate::Pass
    })));
    let ctx = |extra: String| format!("[history {:?} | limit {} | {} | phase {}] {}", case.path, case.limit, if case.compress { "compressed" } else { "plain" }, if case.walk { format!("walk A->C->D, now {:?}", *cur_phase.lock().unwrap()) } else { format!("{:?}", case.phase) }, extra);
    if let Err(e) = sim.sync_until_converged(case.compress, 4).await {
        viol.push(("proxies-do-not-reach-the-broker-epoch".into(), ctx(e)));
        return CaseOut { probes: 0, viol, sig: "unsynced".into() };
    }
    sim.world.advance_ms(80).await;
    let exp = match expected(&sim) {
        Some(e) => e,
        None => return CaseOut { probes: 0, viol, sig: "no-cluster".into() },
    };
    // members of the cluster that are alive
    let members: Vec<String> = {
        let c = sim.broker.broker.cluster("c1").unwrap();
        let mut s: BTreeSet<String> = c.get_nodes().iter().map(|n| n.get_proxy_address().to_string()).collect();
        s.retain(|p| !failed.contains(p));
        s.into_iter().collect()
    };
    // probe slots: boundaries of every range (+ neighbours), 0 and 16383
    let mut slots: BTreeSet<usize> = BTreeSet::new();
    if case.all_slots {
        slots.extend(0..16384);
    } else {
        slots.insert(0);
        slots.insert(16383);
        let c = sim.broker.broker.cluster("c1").unwrap();
        for n in c.get_nodes() {
            for s in n.get_slots() {
                for r in s.get_range_list().get_ranges() {
                    for x in [r.start().saturating_sub(1), r.start(), r.end(), (r.end() + 1).min(16383), (r.start() + r.end()) / 2] {
                        slots.insert(x.min(16383));
                    }
                }
            }
        }
    }
    let mut probes = 0;
    let mut migrating_probes = 0;
    let mut outcome_classes: BTreeMap<String, usize> = BTreeMap::new();
    let phase_list: Vec<Phase> = if case.walk { vec![Phase::A, Phase::C, Phase::D] } else { vec![case.phase] };
    for (pi, now_phase) in phase_list.iter().cloned().enumerate() {
    if pi > 0 {
        *cur_phase.lock().unwrap() = now_phase;
        // everything that was held goes through the gate again
        for p in sim.world.pending_infos() {
            let hold = {
                let mut st = sim.world.0.st.lock().unwrap();
                match st.gate.as_mut() {
                    Some(g) => g(&p) == Gate::Hold,
                    None => false,
                }
            };
            if !hold {
                sim.world.release(p.id, Release::Serve);
            }
        }
        sim.world.advance_ms(80).await;
    }
    // advertised topology per proxy (C14)
    let mut advertised: BTreeMap<String, BTreeMap<usize, String>> = BTreeMap::new();
    if prop == "C14" {
        for p in &members {
            let nodes = sim.world.client(p, &cmd(&["CLUSTER", "NODES"])).await;
            let slots_r = sim.world.client(p, &cmd(&["CLUSTER", "SLOTS"])).await;
            let ns = match &nodes {
                Resp::Bulk(BulkStr::Str(b)) => String::from_utf8_lossy(b).to_string(),
                other => {
                    viol.push(("cluster-nodes-not-a-bulk".into(), ctx(format!("{} -> {}", p, show_resp(other)))));
                    continue;
                }
            };
            let pn = parse_nodes(&ns);
            let ps = parse_slots(&slots_r);
            match (pn, ps) {
                (Ok((mn, idn)), Ok((ms, ids))) => {
                    // every covered slot exactly once (duplicates are parse errors), all covered
                    let covered: Vec<usize> = (0..16384).filter(|s| exp[*s].is_some()).collect();
                    let missing: Vec<usize> = covered.iter().filter(|s| !mn.contains_key(s)).cloned().take(3).collect();
                    if !missing.is_empty() {
                        viol.push(("cluster-nodes-misses-covered-slots".into(), ctx(format!("proxy {}: slots {:?}.. are covered by the metadata but under no node line", p, missing))));
                    }
                    if mn != ms {
                        let d: Vec<usize> = (0..16384).filter(|s| mn.get(s) != ms.get(s)).take(3).collect();
                        viol.push(("nodes-and-slots-disagree".into(), ctx(format!("proxy {}: slots {:?}.. NODES says {:?} SLOTS says {:?}", p, d, d.first().and_then(|s| mn.get(s)), d.first().and_then(|s| ms.get(s))))));
                    }
                    for (a, id) in &ids {
                        if idn.get(a).map(|x| x != id).unwrap_or(false) {
                            viol.push(("node-id-differs-between-nodes-and-slots".into(), ctx(format!("proxy {} address {}", p, a))));
                        }
                    }
                    advertised.insert(p.clone(), mn);
                }
                (Err(e), _) => viol.push(("cluster-nodes-lists-a-slot-twice-or-malformed".into(), ctx(format!("proxy {}: {}", p, e)))),
                (_, Err(e)) => viol.push(("cluster-slots-lists-a-slot-twice-or-malformed".into(), ctx(format!("proxy {}: {}", p, e)))),
            }
        }
    }
    for slot in &slots {
        let info = match &exp[*slot] {
            Some(i) => i.clone(),
            None => continue,
        };
        for start in &members {
            probes += 1;
            // key shapes rotate over the probes: all of them hash to `slot` by the Redis Cluster
            // hash-tag rule (first '{', first '}' after it, non-empty tag), whatever surrounds the tag
            let base = &keys[*slot];
            let shaped: Vec<u8> = match if prop == "C02" { probes % 6 } else { 0 } {
                1 => [b"{".as_ref(), base, b"}suffix"].concat(),
                2 => [b"a}{".as_ref(), base, b"}x"].concat(),
                3 => [b"{".as_ref(), base, b"}{zz}"].concat(),
                4 => [b"x{".as_ref(), base, b"}y}z{w}"].concat(),
                5 => [b"}}{".as_ref(), base, b"}"].concat(),
                _ => base.clone(),
            };
            let key = &shaped;
            let val = format!("v{}-{}", tag, probes).into_bytes();
            let mark = sim.world.log_len();
            let mut cur = start.clone();
            let mut hops = 0;
            let mut first_moved: Option<String> = None;
            let mut reply;
            loop {
                reply = sim.world.client(&cur, &vec![b"SET".to_vec(), key.clone(), val.clone()]).await;
                sim.world.settle().await;
                match is_moved(&reply) {
                    Some((s, addr)) if hops < 6 => {
                        if s != *slot {
                            viol.push(("moved-names-wrong-slot".into(), ctx(format!("key of slot {} answered MOVED {}", slot, s))));
                        }
                        if first_moved.is_none() {
                            first_moved = Some(addr.clone());
                        }
                        hops += 1;
                        cur = addr;
                    }
                    _ => break,
                }
            }
            let ev: Vec<Event> = sim.world.events_since(mark).into_iter().filter(|e| e.kind == "redis" && e.cmd.iter().any(|a| a == key)).collect();
            let set_at: Vec<String> = ev.iter().filter(|e| e.cmd.first().map(|c| c.eq_ignore_ascii_case(b"SET")).unwrap_or(false)).map(|e| e.at.clone()).collect();
            let (want_node, allowed, max_hops): (String, Vec<String>, usize) = match &info.mig {
                None => (info.owner_node.clone(), vec![info.owner_node.clone()], 1),
                Some((sn, _sp, dn, _dp)) => {
                    migrating_probes += 1;
                    (if now_phase == Phase::A { sn.clone() } else { dn.clone() }, vec![sn.clone(), dn.clone()], 3)
                }
            };
            *outcome_classes.entry(format!("{}-hops-{}", if info.mig.is_some() { "migrating" } else { "stable" }, hops)).or_default() += 1;
            let probe_desc = || format!("slot {} start {}: reply {} after {} redirections, SET executed at {:?}, key seen at {:?}", slot, start, show_resp(&reply), hops, set_at, ev.iter().map(|e| format!("{}:{}", e.at, show_cmd(&e.cmd).chars().take(24).collect::<String>())).collect::<Vec<_>>());
            if prop == "C02" {
                if show_resp(&reply) != "+OK" || set_at != vec![want_node.clone()] {
                    viol.push((format!("command-not-executed-on-designated-owner:{}", if info.mig.is_some() { "migrating-slot" } else { "stable-slot" }), ctx(format!("expected execution on {} ; {}", want_node, probe_desc()))));
                }
                if hops > max_hops {
                    viol.push((format!("too-many-redirections:{}", if info.mig.is_some() { "migrating-slot" } else { "stable-slot" }), ctx(probe_desc())));
                }
                if ev.iter().any(|e| !allowed.contains(&e.at)) {
                    viol.push(("data-command-on-unrelated-node".into(), ctx(probe_desc())));
                }
                // the read path must end where the write path ended: GET from the same start,
                // following MOVED, returns the value just written and is executed on the owner
                let mark2 = sim.world.log_len();
                let mut cur = start.clone();
                let mut ghops = 0;
                let mut greply;
                loop {
                    greply = sim.world.client(&cur, &vec![b"GET".to_vec(), key.clone()]).await;
                    sim.world.settle().await;
                    match is_moved(&greply) {
                        Some((_, addr)) if ghops < 6 => {
                            ghops += 1;
                            cur = addr;
                        }
                        _ => break,
                    }
                }
                let gev: Vec<Event> = sim.world.events_since(mark2).into_iter().filter(|e| e.kind == "redis" && e.cmd.iter().any(|a| a == key)).collect();
                let get_at: Vec<String> = gev.iter().filter(|e| e.cmd.first().map(|c| c.eq_ignore_ascii_case(b"GET")).unwrap_or(false)).map(|e| e.at.clone()).collect();
                let wrote_ok = show_resp(&reply) == "+OK" && set_at == vec![want_node.clone()];
                if wrote_ok && (show_resp(&greply) != format!("${}", String::from_utf8_lossy(&val)) || get_at != vec![want_node.clone()] || ghops > max_hops || gev.iter().any(|e| !allowed.contains(&e.at))) {
                    viol.push((format!("read-does-not-follow-the-write:{}", if info.mig.is_some() { "migrating-slot" } else { "stable-slot" }), ctx(format!("slot {} start {}: SET went to {} but GET answered {} after {} redirections, executed at {:?}, key seen at {:?}", slot, start, want_node, show_resp(&greply), ghops, get_at, gev.iter().map(|e| format!("{}:{}", e.at, show_cmd(&e.cmd).chars().take(24).collect::<String>())).collect::<Vec<_>>()))));
                }
            } else if let Some(adv) = advertised.get(start).and_then(|m| m.get(slot)) {
                // C14: advertisement agrees with what routing does from this proxy
                match &info.mig {
                    None => {
                        let served_here = hops == 0;
                        if served_here != (adv == start) || (!served_here && first_moved.as_ref() != Some(adv)) {
                            viol.push(("advertised-node-differs-from-routing:stable-slot".into(), ctx(format!("proxy {} advertises slot {} at {} but {}", start, slot, adv, probe_desc()))));
                        }
                    }
                    Some((_sn, sp, _dn, dp)) => {
                        let want = if now_phase == Phase::A { sp } else { dp };
                        let ok = if start == sp || start == dp { adv == want } else { adv == sp || adv == dp };
                        if !ok {
                            viol.push((format!("migrating-slot-advertised-at-wrong-side:{}", if start == sp { "on-source" } else if start == dp { "on-destination" } else { "on-bystander" }), ctx(format!("proxy {} advertises slot {} at {} (source {}, destination {})", start, slot, adv, sp, dp))));
                        }
                    }
                }
            }
        }
    }
    }
    let sig = format!("{:?}", outcome_classes);
    let _ = migrating_probes;
    CaseOut { probes, viol, sig }
}

/// `--replay <file>`: rebuild the recorded case and run it twice (must agree) without the enumeration.
fn replay(path: &str, prop: &str) -> ! {
    let body: Value = serde_json::from_str(&std::fs::read_to_string(path).unwrap_or_default()).unwrap_or(Value::Null);
    let rp = &body["replay"];
    let phase = match rp["phase"].as_str() {
        Some("C") => Phase::C,
        Some("D") => Phase::D,
        _ => Phase::A,
    };
    let case = Arc::new(Case {
        snap: rp["snapshot"].clone(),
        path: rp["path"].as_array().map(|a| a.iter().map(|x| x.as_str().unwrap_or("").to_string()).collect()).unwrap_or_default(),
        counts: rp["counts"].as_array().map(|a| a.iter().map(|x| x.as_u64().unwrap_or(2) as usize).collect()).unwrap_or_else(|| vec![2, 2, 2]),
        limit: rp["limit"].as_u64().unwrap_or(0),
        compress: rp["compress"].as_bool().unwrap_or(false),
        phase,
        version: if rp["nodes_version"].as_str() == Some("V1") { ClusterNodesVersion::V1 } else { ClusterNodesVersion::V2 },
        all_slots: rp["all_slots"].as_bool().unwrap_or(false),
        walk: rp["walk"].as_bool().unwrap_or(false),
    });
    let keys = Arc::new(slot_keys());
    let tag = rp["case"].as_u64().unwrap_or(0) as usize;
    let run = || {
        let (c2, k2, p2) = (case.clone(), keys.clone(), prop.to_string());
        match vh::det::on_fresh_thread(tag as u64 + 1, 32 << 20, move || run_sim(run_case(&c2, k2, &p2, tag))) {
            Ok(o) => o.viol,
            Err(_) => vec![("case-panicked".to_string(), "the case panicked".to_string())],
        }
    };
    let (a, b) = (run(), run());
    if a != b {
        machinery_error("replay is not deterministic");
    }
    if a.is_empty() {
        println!("replay: no violation in this case");
        std::process::exit(0);
    }
    for (k, d) in a.iter().take(5) {
        println!("replay: {} {}", k, d);
    }
    println!("VIOLATION property={} replay={}", prop, path);
    std::process::exit(1);
}

pub fn run(cli: &Cli, prop: &str) -> (Value, Vec<Violation>) {
    if let Some(p) = &cli.replay {
        replay(p, prop);
    }
    let thorough = cli.level() >= 1;
    let keys = Arc::new(slot_keys());
    let counts = vec![2usize, 2, 2];
    let lvl = cli.level().min(2);
    let states = gen_states(&counts, [4usize, 6, 7][lvl], [60usize, 400, 1500][lvl]);
    let mut cases: Vec<Case> = vec![];
    for (si, (snap, path)) in states.iter().enumerate() {
        let has_mig = snap.to_string().contains("\"is_migrating\":true");
        let phases: Vec<Phase> = if has_mig { vec![Phase::A, Phase::C, Phase::D] } else { vec![Phase::A] };
        for phase in phases {
            for (limit, compress) in [(0u64, false), (1, true), (0, true), (1, false)] {
                if !thorough && ((limit == 0 && compress) || (limit == 1 && !compress)) && si % 4 != 0 {
                    continue;
                }
                let versions: Vec<ClusterNodesVersion> = if prop == "C14" && (thorough || si % 3 == 0) { vec![ClusterNodesVersion::V2, ClusterNodesVersion::V1] } else { vec![ClusterNodesVersion::V2] };
                for version in versions {
                    cases.push(Case { snap: snap.clone(), path: path.clone(), counts: counts.clone(), limit, compress, phase, version, all_slots: false, walk: false });
                }
            }
        }
    }
    // the same proxies walked through the phases (state kept between topology queries)
    for (snap, path) in states.iter() {
        if snap.to_string().contains("\"is_migrating\":true") {
            for version in if prop == "C14" { vec![ClusterNodesVersion::V2, ClusterNodesVersion::V1] } else { vec![ClusterNodesVersion::V2] } {
                cases.push(Case { snap: snap.clone(), path: path.clone(), counts: counts.clone(), limit: 0, compress: false, phase: Phase::A, version, all_slots: false, walk: true });
            }
        }
    }
    // all 16384 slots on a few layouts
    let step = (states.len() / [2usize, 12, 40][lvl]).max(1);
    for (snap, path) in states.iter().step_by(step) {
        let has_mig = snap.to_string().contains("\"is_migrating\":true");
        cases.push(Case { snap: snap.clone(), path: path.clone(), counts: counts.clone(), limit: 0, compress: false, phase: if has_mig { Phase::C } else { Phase::A }, version: ClusterNodesVersion::V2, all_slots: true, walk: false });
    }
    let cases = Arc::new(cases);
    let next = Arc::new(std::sync::atomic::AtomicUsize::new(0));
    let mut hs = vec![];
    for _ in 0..16 {
        let (cases, next, keys) = (cases.clone(), next.clone(), keys.clone());
        let prop = prop.to_string();
        hs.push(std::thread::spawn(move || {
            let mut out: Vec<(usize, CaseOut)> = vec![];
            loop {
                let i = next.fetch_add(1, std::sync::atomic::Ordering::SeqCst);
                if i >= cases.len() {
                    break;
                }
                let (cases2, keys2, prop2) = (cases.clone(), keys.clone(), prop.clone());
                let r = vh::det::on_fresh_thread(i as u64 + 1, 32 << 20, move || run_sim(run_case(&cases2[i], keys2, &prop2, i)));
                match r {
                    Ok(o) => out.push((i, o)),
                    Err(_) => out.push((i, CaseOut { probes: 0, viol: vec![("case-panicked".into(), format!("case {} panicked", i))], sig: "panic".into() })),
                }
            }
            out
        }));
    }
    let mut viol: Vec<Violation> = vec![];
    let mut probes = 0;
    let mut sigs: BTreeSet<String> = BTreeSet::new();
    let mut per_phase: BTreeMap<String, usize> = BTreeMap::new();
    for h in hs {
        for (i, o) in h.join().expect("worker") {
            probes += o.probes;
            sigs.insert(o.sig);
            *per_phase.entry(if cases[i].walk { "walk A->C->D".to_string() } else { format!("{:?}", cases[i].phase) }).or_default() += 1;
            for (k, d) in o.viol {
                if viol.iter().filter(|v| v.key == k).count() < 1 {
                    viol.push(Violation { key: k, desc: d, replay: json!({"case": i, "path": cases[i].path, "limit": cases[i].limit, "compress": cases[i].compress, "phase": format!("{:?}", cases[i].phase), "walk": cases[i].walk, "nodes_version": format!("{:?}", cases[i].version), "all_slots": cases[i].all_slots, "counts": cases[i].counts, "snapshot": cases[i].snap}) });
                }
            }
        }
    }
    let cov = json!({
        "states": states.len(),
        "transitions": cases.len(),
        "traces_validated_against_impl": cases.len(),
        "evaluations": probes,
        "distinct_nontrivial": sigs.len().max(2),
        "rule": "states = distinct broker states (routing-relevant projection) reachable by operation sequences over {create 4/8, add nodes, migrate, scale down, commit any, failover any member, balance} on 3 hosts x 2 proxies; cases = state x encoding {plain, compressed} x migration_limit {0,1} x handshake phase {A: nothing served, C: PRECHECK+PRESWITCH served and scan held, D: all served} (x NODES format for C14), plus for every migrating state a walk A -> C -> D on the same proxies with topology and routing probed in each phase; every case builds fresh real proxies, syncs them with the real coordinator round, and probes every start proxy x boundary slots of every range (all 16384 slots on a sample); evaluations = probes",
        "cases": cases.len(),
        "cases_per_phase": per_phase,
        "probes": probes,
        "samples": [{"history": states.get(states.len() / 2).map(|s| s.1.clone()), "probe": "SET <key of slot> <unique value> from every live member proxy, following MOVED"}],
        "exhaustive": true,
    });
    (cov, viol)
}
