//! C07 — the control plane converges despite message faults, coordinator crashes, proxy restarts
//! and concurrent coordinators.
//!
//! System under test: the real broker (`MemBrokerService`), the real coordinator rounds (metadata
//! sync, migration-state sync, failure detection, failure handling) and real proxies on the simnet
//! world.  Every outgoing call of a coordinator round - to the broker or to a proxy - passes one
//! asynchronous gate owned by the explorer and gets a global index.  A *plan* assigns faults to call
//! indices; all plans with at most `d` faults inside the fault window are enumerated (stateless
//! DFS: the children of a run are derived from the calls that run actually made).

use serde_json::{json, Value};
use std::collections::{BTreeMap, BTreeSet, VecDeque};
use std::future::Future;
use std::pin::Pin;
use std::sync::atomic::{AtomicUsize, Ordering};
use std::sync::{Arc, Mutex};
use undermoon::common::cluster::SlotRangeTag;
use undermoon::protocol::{Array, BulkStr, Resp, RespVec};
use vh::brokerlib::*;
use vh::clustersim::*;
use vh::report::*;
use vh::sim::*;

#[derive(Clone, Copy, Debug, PartialEq, Eq, PartialOrd, Ord, Hash)]
pub enum Fault {
    LoseRequest,
    LoseReply,
    Duplicate,
    Delay,
    Crash,
    RestartTarget,
    OtherCoordinator,
    AdminNow,
}

const ALL_FAULTS: [Fault; 8] = [Fault::LoseRequest, Fault::LoseReply, Fault::Duplicate, Fault::Delay, Fault::Crash, Fault::RestartTarget, Fault::OtherCoordinator, Fault::AdminNow];

pub type Plan = BTreeMap<usize, Fault>;

fn show_plan_entry(i: usize, f: &str, call: String) -> String {
    format!("{} at call {} ({})", f, i, call)
}

#[derive(Clone, Debug)]
enum AdminEv {
    Op(Op),
    KillMigrationSource,
    KillMigrationDestination,
    /// the proxy of the cluster's first master node stops answering
    KillClusterMember,
    /// a proxy of the world that the broker does not know registers (a spare arrives)
    RegisterSpare,
}

#[derive(Clone, Debug)]
struct Script {
    name: &'static str,
    init: Vec<Op>,
    /// (default tick, event)
    events: Vec<(usize, AdminEv)>,
    window: usize,
    step_ms: u64,
}

#[derive(Clone, Debug)]
struct CallRec {
    who: String,
    broker: bool,
    what: String,
    target: Option<String>,
    in_window: bool,
    admin_pending: bool,
    nested: bool,
    fault: Option<Fault>,
    /// length of the world's event log when the call was issued (what had been executed by then)
    log_len: usize,
}

struct ExecSt {
    idx: usize,
    plan: Plan,
    calls: Vec<CallRec>,
    window_open: bool,
    admin: VecDeque<(usize, AdminEv)>,
    nested: bool,
    restarts: Vec<(String, usize)>, // proxy, world log length at the restart
    killed: Vec<String>,
    extra_ticks: usize,
}

struct Exec {
    sim: ClusterSim,
    st: Mutex<ExecSt>,
    crash: [Arc<tokio::sync::Notify>; 2],
    tick_no: AtomicUsize,
}

fn coord_index(who: &str) -> usize {
    if who.starts_with("coordB") {
        1
    } else {
        0
    }
}

fn first_migration(sim: &ClusterSim) -> Option<(String, String)> {
    let c = sim.broker.broker.cluster("c1")?;
    for n in c.get_nodes() {
        for s in n.get_slots() {
            if let SlotRangeTag::Migrating(m) = &s.tag {
                return Some((m.src_proxy_address.clone(), m.dst_proxy_address.clone()));
            }
        }
    }
    None
}

fn apply_admin(ex: &Exec, ev: &AdminEv) {
    match ev {
        AdminEv::Op(op) => {
            let _ = ex.sim.apply(op);
        }
        AdminEv::KillClusterMember => {
            let victim = ex.sim.broker.broker.cluster("c1").and_then(|c| c.get_nodes().iter().find(|n| n.get_role() == undermoon::common::cluster::Role::Master).map(|n| n.get_proxy_address().to_string()));
            if let Some(victim) = victim {
                ex.sim.world.0.st.lock().unwrap().down.insert(victim.clone());
                ex.st.lock().unwrap().killed.push(victim);
            }
        }
        AdminEv::RegisterSpare => {
            for (i, (addr, host, nodes)) in ex.sim.proxies.iter().enumerate() {
                let known = futures::executor::block_on(ex.sim.broker.broker.svc.get_proxy_by_address(addr)).ok().flatten().is_some();
                if !known {
                    let p = serde_json::from_value(vh::clustersim::register_op(addr, host, nodes, i)).unwrap();
                    let _ = futures::executor::block_on(ex.sim.broker.broker.svc.add_proxy(p));
                    break;
                }
            }
        }
        AdminEv::KillMigrationSource | AdminEv::KillMigrationDestination => {
            if let Some((s, d)) = first_migration(&ex.sim) {
                let victim = if matches!(ev, AdminEv::KillMigrationSource) { s } else { d };
                ex.sim.world.0.st.lock().unwrap().down.insert(victim.clone());
                ex.st.lock().unwrap().killed.push(victim);
            }
        }
    }
}

enum Decision {
    Normal,
    LoseRequest,
    LoseReply,
    Duplicate,
    Delay,
}

/// The one gate every coordinator call passes.
fn on_call(ex: Arc<Exec>, who: String, broker: bool, what: String, target: Option<String>) -> Pin<Box<dyn Future<Output = Decision> + Send>> {
    Box::pin(async move {
        let log_len = ex.sim.world.log_len();
        let fault = {
            let mut st = ex.st.lock().unwrap();
            let idx = st.idx;
            st.idx += 1;
            let fault = if st.window_open { st.plan.get(&idx).cloned() } else { None };
            let rec = CallRec { who: who.clone(), broker, what, target: target.clone(), in_window: st.window_open, admin_pending: !st.admin.is_empty(), nested: st.nested, fault, log_len };
            st.calls.push(rec);
            fault
        };
        match fault {
            None => Decision::Normal,
            Some(Fault::LoseRequest) => Decision::LoseRequest,
            Some(Fault::LoseReply) => Decision::LoseReply,
            Some(Fault::Duplicate) => Decision::Duplicate,
            Some(Fault::Delay) => Decision::Delay,
            Some(Fault::Crash) => {
                ex.crash[coord_index(&who)].notify_one();
                futures::future::pending::<()>().await;
                Decision::Normal
            }
            Some(Fault::RestartTarget) => {
                if let Some(t) = target {
                    let is_proxy = ex.sim.world.0.st.lock().unwrap().proxies.contains_key(&t);
                    if is_proxy {
                        let len = ex.sim.world.log_len();
                        ex.sim.world.add_proxy(&t, &ex.sim.opts);
                        ex.st.lock().unwrap().restarts.push((t, len));
                    }
                }
                Decision::Normal
            }
            Some(Fault::AdminNow) => {
                let ev = ex.st.lock().unwrap().admin.pop_front();
                if let Some((_, ev)) = ev {
                    apply_admin(&ex, &ev);
                }
                Decision::Normal
            }
            Some(Fault::OtherCoordinator) => {
                let go = {
                    let mut st = ex.st.lock().unwrap();
                    if st.nested {
                        false
                    } else {
                        st.nested = true;
                        st.extra_ticks += 1;
                        true
                    }
                };
                if go {
                    let other = 1 - coord_index(&who);
                    tick(ex.clone(), other).await;
                    ex.st.lock().unwrap().nested = false;
                }
                Decision::Normal
            }
        }
    })
}

async fn guarded<F: Future<Output = Vec<String>>>(n: Arc<tokio::sync::Notify>, f: F) -> Option<Vec<String>> {
    tokio::select! {
        biased;
        _ = n.notified() => None,
        r = f => Some(r),
    }
}

/// One pass of every coordinator loop (each loop body is a fresh round object, as in the service).
fn tick(ex: Arc<Exec>, coord: usize) -> Pin<Box<dyn Future<Output = ()> + Send>> {
    Box::pin(async move {
        let t = ex.tick_no.fetch_add(1, Ordering::SeqCst);
        let name = ["coordA", "coordB"][coord];
        for kind in ["sync", "mig", "detect", "failover"] {
            let who = format!("{}#{}#{}", name, kind, t);
            let view = ex.sim.view(&who);
            let n = ex.crash[coord].clone();
            let _ = match kind {
                "sync" => guarded(n, view.sync_round(&who, false)).await,
                "mig" => guarded(n, view.migration_round(&who, false)).await,
                "detect" => guarded(n, view.detect_round(&who)).await,
                _ => guarded(n, view.failover_round()).await,
            };
        }
    })
}

// ------------------------------------------------------------------------------------------------
// observation helpers

fn canon(r: &RespVec) -> Value {
    match r {
        Resp::Arr(Array::Arr(a)) => {
            let items: Vec<Value> = a.iter().map(canon).collect();
            // unordered collections are rendered from hash maps: sort the array-typed members,
            // keep scalar members where they are
            let mut arrays: Vec<Value> = items.iter().filter(|v| v.is_array()).cloned().collect();
            arrays.sort_by_key(|v| v.to_string());
            let mut it = arrays.into_iter();
            Value::Array(items.into_iter().map(|v| if v.is_array() { it.next().unwrap() } else { v }).collect())
        }
        Resp::Arr(Array::Nil) => Value::Null,
        Resp::Bulk(BulkStr::Str(b)) => Value::String(String::from_utf8_lossy(b).to_string()),
        Resp::Bulk(BulkStr::Nil) => Value::Null,
        Resp::Simple(b) => Value::String(format!("+{}", String::from_utf8_lossy(b))),
        Resp::Error(b) => Value::String(format!("-{}", String::from_utf8_lossy(b))),
        Resp::Integer(b) => Value::String(format!(":{}", String::from_utf8_lossy(b))),
    }
}

/// The metadata a proxy holds (UMCTL INFO), canonical, with migration task *states* removed.
async fn held_view(world: &World, addr: &str) -> Value {
    let r = world.client(addr, &cmd(&["UMCTL", "INFO"])).await;
    let mut v = canon(&r);
    // ["Cluster", c, "Replication", r, "Migration", m]
    if let Some(arr) = v.as_array_mut() {
        if arr.len() == 6 {
            if let Some(lines) = arr[5].as_array_mut() {
                let mut l: Vec<Value> = lines
                    .iter()
                    .map(|x| {
                        let s = x.as_str().unwrap_or("").to_string();
                        if s.contains(" -> ") {
                            // "<ranges> <src> -> <dst> <state>": drop the state
                            Value::String(s.rsplitn(2, ' ').nth(1).unwrap_or("").to_string())
                        } else {
                            Value::String(s)
                        }
                    })
                    .collect();
                l.sort_by_key(|v| v.to_string());
                *lines = l;
            }
        }
    }
    v
}

async fn epoch_of(world: &World, addr: &str) -> Option<u64> {
    match world.client(addr, &cmd(&["UMCTL", "GETEPOCH"])).await {
        Resp::Integer(b) => String::from_utf8_lossy(&b).parse().ok(),
        _ => None,
    }
}

pub struct Outcome {
    commits: Vec<CommitRec>,
    calls: Vec<CallRec>,
    viol: Vec<(String, String)>,
    sig: String,
    trace: Vec<String>,
    setup_error: Option<String>,
}

const K_ROUNDS: usize = 4;

async fn execute(script: &Script, plan: &Plan) -> Outcome {
    let mut out = Outcome { commits: vec![], calls: vec![], viol: vec![], sig: String::new(), trace: vec![], setup_error: None };
    let counts = [2usize, 2, 2];
    let cfg = BrokerCfg { ordered: false, migration_limit: 1, failure_quorum: 1, failure_ttl: 100000 };
    let opts = ProxyOpts::default();
    let sim = ClusterSim::new(&counts, &cfg, &opts, None);
    for op in &script.init {
        let r = sim.apply(op);
        if !r.starts_with("OK") {
            out.setup_error = Some(format!("{:?} -> {}", op, r));
            return out;
        }
    }
    if let Err(e) = sim.sync_until_converged(false, 4).await {
        out.setup_error = Some(e);
        return out;
    }
    // a few keys everywhere so that migrations have something to move
    {
        let keys = crate::util::slot_keys();
        let mut st = sim.world.0.st.lock().unwrap();
        let now = 0;
        for (_, r) in st.redis.iter_mut() {
            for s in [5usize, 5000, 9000, 12000, 16000] {
                r.exec(&vec![b"SET".to_vec(), keys[s].clone(), b"v".to_vec()], now);
            }
        }
    }
    let ex = Arc::new(Exec {
        sim,
        st: Mutex::new(ExecSt { idx: 0, plan: plan.clone(), calls: vec![], window_open: true, admin: script.events.iter().cloned().collect(), nested: false, restarts: vec![], killed: vec![], extra_ticks: 0 }),
        crash: [Arc::new(tokio::sync::Notify::new()), Arc::new(tokio::sync::Notify::new())],
        tick_no: AtomicUsize::new(0),
    });
    // install the gates
    {
        let ex2 = ex.clone();
        let g: AsyncGateFn = Arc::new(move |info: ReqInfo| {
            let ex3 = ex2.clone();
            Box::pin(async move {
                let what = info.cmds.first().map(|c| c.iter().take(4).map(|b| String::from_utf8_lossy(b).to_string()).collect::<Vec<_>>().join(" ")).unwrap_or_default();
                match on_call(ex3, info.from.clone(), false, what, Some(info.to.clone())).await {
                    Decision::Normal => Verdict::Serve,
                    Decision::LoseRequest => Verdict::DropRequest,
                    Decision::LoseReply => Verdict::DropReply,
                    Decision::Duplicate => Verdict::Duplicate,
                    Decision::Delay => Verdict::Delay,
                }
            })
        });
        ex.sim.world.set_async_gate(Some(g));
        let ex2 = ex.clone();
        let h: BrokerHook = Arc::new(move |who: String, what: String| {
            let ex3 = ex2.clone();
            Box::pin(async move {
                let target = what.split(' ').nth(1).map(|s| s.to_string());
                let mutating = what.starts_with("commit_migration") || what.starts_with("replace_proxy") || what.starts_with("add_failure");
                match on_call(ex3, who, true, what, target).await {
                    Decision::LoseRequest => BrokerVerdict::LoseRequest,
                    // a delayed / repeated read is just a failed / plain read
                    Decision::Delay => if mutating { BrokerVerdict::Delay } else { BrokerVerdict::LoseRequest },
                    Decision::Duplicate => if mutating { BrokerVerdict::Duplicate } else { BrokerVerdict::Exec },
                    Decision::LoseReply => BrokerVerdict::LoseReply,
                    _ => BrokerVerdict::Exec,
                }
            })
        });
        *ex.sim.broker.hook.lock().unwrap() = Some(h);
    }
    let world = ex.sim.world.clone();
    let all_proxies: Vec<String> = ex.sim.proxies.iter().map(|p| p.0.clone()).collect();
    let mut last_epoch: BTreeMap<String, u64> = BTreeMap::new();
    let mut seen_restarts = 0usize;
    let total_ticks = script.window + K_ROUNDS;
    for t in 0..total_ticks {
        if t == script.window {
            // faults stop: everything scripted has happened, late messages arrive now
            let rest: Vec<(usize, AdminEv)> = {
                let mut st = ex.st.lock().unwrap();
                st.window_open = false;
                st.admin.drain(..).collect()
            };
            for (_, ev) in rest {
                apply_admin(&ex, &ev);
            }
            let n = world.deliver_delayed(false).await;
            if n > 0 {
                out.trace.push(format!("delivered {} delayed requests", n));
            }
            let nb = ex.sim.broker.deliver_delayed().await;
            if nb > 0 {
                out.trace.push(format!("delivered {} delayed broker calls", nb));
            }
        }
        // scripted events whose default tick has come
        loop {
            let ev = {
                let mut st = ex.st.lock().unwrap();
                match st.admin.front() {
                    Some((at, _)) if *at <= t => st.admin.pop_front(),
                    _ => None,
                }
            };
            match ev {
                Some((_, ev)) => apply_admin(&ex, &ev),
                None => break,
            }
        }
        tick(ex.clone(), 0).await;
        world.advance_ms(script.step_ms).await;
        // safety, observed from outside: the epoch of an incarnation never decreases
        let restarts: Vec<(String, usize)> = ex.st.lock().unwrap().restarts.clone();
        for (p, _) in &restarts[seen_restarts..] {
            last_epoch.remove(p);
        }
        seen_restarts = restarts.len();
        for p in &all_proxies {
            if world.0.st.lock().unwrap().down.contains(p) {
                continue;
            }
            if let Some(e) = epoch_of(&world, p).await {
                if let Some(prev) = last_epoch.get(p) {
                    if e < *prev {
                        out.viol.push(("proxy-epoch-decreased".into(), format!("proxy {} reported epoch {} after {} (tick {})", p, e, prev, t)));
                    }
                }
                last_epoch.insert(p.clone(), e);
            }
        }
    }
    // remove the gates (they hold the executor alive)
    world.set_async_gate(None);
    *ex.sim.broker.hook.lock().unwrap() = None;

    let (calls, restarts, killed) = {
        let st = ex.st.lock().unwrap();
        (st.calls.clone(), st.restarts.clone(), st.killed.clone())
    };
    // ---- safety from the log: within one incarnation the accepted epochs strictly increase
    let events = world.events();
    {
        let mut acc: BTreeMap<(String, &'static str), u64> = BTreeMap::new();
        let mut ri = 0;
        for (i, e) in events.iter().enumerate() {
            while ri < restarts.len() && restarts[ri].1 <= i {
                acc.remove(&(restarts[ri].0.clone(), "SETCLUSTER"));
                acc.remove(&(restarts[ri].0.clone(), "SETREPL"));
                ri += 1;
            }
            if e.kind != "proxy" || e.cmd.len() < 5 || !e.cmd[0].eq_ignore_ascii_case(b"UMCTL") {
                continue;
            }
            let sub = String::from_utf8_lossy(&e.cmd[1]).to_uppercase();
            let (kind, epoch_i, flags_i): (&'static str, usize, usize) = match sub.as_str() {
                "SETCLUSTER" => ("SETCLUSTER", 3, 4),
                "SETREPL" => ("SETREPL", 2, 3),
                _ => continue,
            };
            if e.reply != "+OK" {
                continue;
            }
            let epoch: u64 = String::from_utf8_lossy(&e.cmd[epoch_i]).parse().unwrap_or(0);
            let force = String::from_utf8_lossy(&e.cmd[flags_i]).to_uppercase().contains("FORCE");
            let k = (e.at.clone(), kind);
            if let Some(prev) = acc.get(&k) {
                if epoch <= *prev && !force {
                    out.viol.push((format!("proxy-accepted-metadata-not-newer-than-installed:{}", kind), format!("proxy {} accepted {} epoch {} from {} while holding epoch {}", e.at, kind, epoch, e.from, prev)));
                }
            }
            acc.insert(k, epoch);
        }
    }
    // ---- migrations: every task committed at most once; a refused commit changes nothing;
    //      after a commit the same round reaches the destination before the source
    let commits = ex.sim.broker.commits.lock().unwrap().clone();
    {
        let mut ok_by_task: BTreeMap<String, usize> = BTreeMap::new();
        for c in &commits {
            if c.ok && !c.was_current {
                out.viol.push(("commit-accepted-for-a-task-the-broker-did-not-hold".into(), format!("commit of {} by {} was accepted although the broker held no migration with that range list, epoch and addresses at that moment (a stale descriptor committed a different, unfinished task)", c.task, c.who)));
            }
            if c.ok {
                *ok_by_task.entry(c.task.clone()).or_default() += 1;
            } else if c.state_changed {
                out.viol.push(("refused-commit-changed-broker-state".into(), format!("commit of {} by {} was refused ({}) but the store changed", c.task, c.who, c.code)));
            }
        }
        for (t, n) in ok_by_task {
            if n > 1 {
                out.viol.push(("migration-committed-more-than-once".into(), format!("task {} committed {} times", t, n)));
            }
        }
        // ordering inside the committing round
        let reached: Vec<&CallRec> = calls.iter().filter(|c| c.broker && c.what.starts_with("commit_migration") && !matches!(c.fault, Some(Fault::LoseRequest) | Some(Fault::Delay) | Some(Fault::Crash))).collect();
        let commits_in_order: Vec<&CommitRec> = commits.iter().filter(|c| !c.late).collect();
        if reached.len() == commits_in_order.len() {
            for (ci, c) in commits_in_order.iter().enumerate() {
                if !c.ok {
                    continue;
                }
                let pos = calls.iter().position(|x| std::ptr::eq(x, reached[ci])).unwrap_or(0);
                let mut dst_seen = false;
                for x in &calls[pos + 1..] {
                    if x.who != c.who || x.broker || !x.what.to_uppercase().starts_with("UMCTL SETCLUSTER") {
                        continue;
                    }
                    let t = x.target.clone().unwrap_or_default();
                    if t == c.dst_proxy {
                        dst_seen = true;
                    } else if t == c.src_proxy {
                        if !dst_seen {
                            out.viol.push(("source-updated-before-destination-after-commit".into(), format!("round {} committed {} and sent SETCLUSTER to the source {} before the destination {}", c.who, c.task, c.src_proxy, c.dst_proxy)));
                        } else {
                            // "before" means the destination has *answered* (installed or already
                            // newer) by the time the request to the source is issued - not merely
                            // that its request was issued first
                            let answered = events[..x.log_len.min(events.len())].iter().any(|e| {
                                e.kind == "proxy" && e.at == c.dst_proxy && e.from == c.who && e.cmd.len() > 1 && e.cmd[0].eq_ignore_ascii_case(b"UMCTL") && e.cmd[1].eq_ignore_ascii_case(b"SETCLUSTER") && (e.reply == "+OK" || e.reply.contains("OLD_EPOCH"))
                            });
                            if !answered {
                                out.viol.push(("source-request-issued-before-destination-answered-after-commit".into(), format!("round {} committed {} and issued SETCLUSTER to the source {} while the destination {} had not yet answered its SETCLUSTER", c.who, c.task, c.src_proxy, c.dst_proxy)));
                            }
                        }
                        break;
                    }
                }
            }
        }
    }
    // ---- convergence: every registered, non-failed, reachable proxy holds exactly the broker's view
    let snap = ex.sim.broker.broker.snapshot();
    let failed: BTreeSet<String> = ex.sim.broker.broker.failed_proxies().into_iter().collect();
    let down: BTreeSet<String> = world.0.st.lock().unwrap().down.clone();
    // reference: fresh proxies fed once from the same broker state
    let reference = {
        let w = World::new();
        for (addr, _, nodes) in &ex.sim.proxies {
            w.add_redis(&nodes[0]);
            w.add_redis(&nodes[1]);
            w.add_proxy(addr, &opts);
        }
        for d in &down {
            w.0.st.lock().unwrap().down.insert(d.clone());
        }
        match Broker::from_snapshot(&cfg, cfg.migration_limit, &snap) {
            Ok(b) => {
                let r = ClusterSim::with_world(w, &counts, &cfg, &opts, b);
                let _ = r.sync_round("reference", false).await;
                Some(r)
            }
            Err(e) => {
                out.viol.push(("final-broker-state-not-restorable".into(), e));
                None
            }
        }
    };
    let mut converged = 0;
    let mut sig_parts = vec![];
    for p in proxy_addrs(&snap) {
        if failed.contains(&p) || down.contains(&p) {
            continue;
        }
        let want = ex.sim.broker.broker.proxy(&p).map(|x| x.get_epoch());
        let got = epoch_of(&world, &p).await;
        sig_parts.push(format!("{}={:?}", p, got));
        if want != got {
            out.viol.push(("proxy-not-at-broker-epoch-after-faults-stopped".into(), format!("proxy {} holds epoch {:?}, the broker serves {:?} for it, {} fault-free rounds after the last fault", p, got, want, K_ROUNDS)));
            continue;
        }
        if let Some(r) = &reference {
            let a = held_view(&world, &p).await;
            let b = held_view(&r.world, &p).await;
            if a != b {
                out.viol.push(("proxy-view-differs-from-broker-view".into(), format!("proxy {} at the broker's epoch {:?} holds {} but a proxy fed from the broker holds {}", p, got, a, b)));
                continue;
            }
        }
        converged += 1;
    }
    // a finished migration must not stay uncommitted
    for p in proxy_addrs(&snap) {
        if failed.contains(&p) || down.contains(&p) {
            continue;
        }
        if let Resp::Arr(Array::Arr(a)) = world.client(&p, &cmd(&["UMCTL", "INFOMGR"])).await {
            if !a.is_empty() {
                out.viol.push(("finished-migration-left-uncommitted".into(), format!("proxy {} still reports a finished migration task {} fault-free rounds after the last fault: {}", p, K_ROUNDS, show_resp(&Resp::Arr(Array::Arr(a.clone()))))));
            }
        }
    }
    let old_epoch = events.iter().filter(|e| e.kind == "proxy" && e.reply.contains("OLD_EPOCH")).count();
    out.sig = format!("{} commits={:?} old_epoch_replies={} restarts={} killed={:?} converged={} failed={:?}", sig_parts.join(","), commits.iter().map(|c| c.ok).collect::<Vec<_>>(), old_epoch.min(3), restarts.len(), killed, converged, failed);
    out.trace.extend(calls.iter().enumerate().filter(|(_, c)| c.fault.is_some()).map(|(i, c)| format!("call {} {} {} {:?} -> {:?}", i, c.who, c.what, c.target, c.fault)));
    out.calls = calls;
    out.commits = commits;
    drop(reference);
    out
}

fn scripts(thorough: bool) -> Vec<Script> {
    let c = |n: &str| n.to_string();
    let mut v = vec![
        Script { name: "create-cluster", init: vec![], events: vec![(0, AdminEv::Op(Op::AddCluster { name: c("c1"), n: 4 }))], window: 2, step_ms: 10 },
        Script {
            name: "scale-out-with-migration",
            init: vec![Op::AddCluster { name: c("c1"), n: 4 }],
            events: vec![(0, AdminEv::Op(Op::AutoAddNodes { name: c("c1"), n: 4 })), (0, AdminEv::Op(Op::MigrateSlots { name: c("c1") }))],
            window: 3,
            step_ms: 40,
        },
        Script {
            name: "source-proxy-dies-during-migration",
            init: vec![Op::AddCluster { name: c("c1"), n: 4 }],
            events: vec![(0, AdminEv::Op(Op::AutoAddNodes { name: c("c1"), n: 4 })), (0, AdminEv::Op(Op::MigrateSlots { name: c("c1") })), (1, AdminEv::KillMigrationSource)],
            window: 3,
            step_ms: 10,
        },
    ];
    v.push(Script {
        name: "member-dies-without-spare-then-a-spare-registers",
        init: vec![Op::RemoveProxy { addr: c("127.0.0.3:7000") }, Op::RemoveProxy { addr: c("127.0.0.3:7001") }, Op::AddCluster { name: c("c1"), n: 8 }],
        events: vec![(0, AdminEv::KillClusterMember), (2, AdminEv::RegisterSpare)],
        window: 4,
        step_ms: 10,
    });
    if thorough {
        v.push(Script {
            name: "destination-proxy-dies-during-migration",
            init: vec![Op::AddCluster { name: c("c1"), n: 4 }],
            events: vec![(0, AdminEv::Op(Op::AutoAddNodes { name: c("c1"), n: 4 })), (0, AdminEv::Op(Op::MigrateSlots { name: c("c1") })), (1, AdminEv::KillMigrationDestination)],
            window: 3,
            step_ms: 10,
        });
        v.push(Script { name: "scale-in", init: vec![Op::AddCluster { name: c("c1"), n: 8 }], events: vec![(0, AdminEv::Op(Op::ScaleDown { name: c("c1"), n: 4 }))], window: 3, step_ms: 40 });
    }
    v
}

fn applicable(c: &CallRec, f: Fault) -> bool {
    if !c.in_window {
        return false;
    }
    match f {
        Fault::LoseRequest | Fault::Crash => true,
        // a lost reply differs from a lost request only for calls with an effect
        Fault::LoseReply => !c.broker || c.what.starts_with("commit_migration") || c.what.starts_with("replace_proxy") || c.what.starts_with("add_failure"),
        Fault::Duplicate | Fault::Delay => {
            if c.broker {
                c.what.starts_with("commit_migration") || c.what.starts_with("replace_proxy") || c.what.starts_with("add_failure")
            } else {
                c.what.to_uppercase().starts_with("UMCTL SET")
            }
        }
        Fault::RestartTarget => !c.broker,
        Fault::OtherCoordinator => !c.nested,
        Fault::AdminNow => c.admin_pending,
    }
}

fn fault_from(s: &str) -> Option<Fault> {
    ALL_FAULTS.iter().cloned().find(|f| format!("{:?}", f) == s)
}

/// `--replay <file>`: re-run one recorded fault plan twice (must be identical) without the explorer.
fn replay(path: &str) -> ! {
    let body: Value = serde_json::from_str(&std::fs::read_to_string(path).unwrap_or_default()).unwrap_or(Value::Null);
    let rp = &body["replay"];
    let name = rp["script"].as_str().unwrap_or("").to_string();
    let mut plan = Plan::new();
    for e in rp["plan"].as_array().cloned().unwrap_or_default() {
        if let (Some(i), Some(f)) = (e[0].as_u64(), e[1].as_str().and_then(fault_from)) {
            plan.insert(i as usize, f);
        }
    }
    let scs = Arc::new(scripts(true));
    let si = match scs.iter().position(|s| s.name == name) {
        Some(i) => i,
        None => machinery_error("replay: no such script"),
    };
    let run = || {
        let (scs2, p2) = (scs.clone(), plan.clone());
        match vh::det::on_fresh_thread(si as u64 + 1, 64 << 20, move || run_sim(execute(&scs2[si], &p2))) {
            Ok(o) => o,
            Err(_) => {
                println!("replay: the execution panicked");
                println!("VIOLATION property=C07 replay={}", path);
                std::process::exit(1);
            }
        }
    };
    let (a, b) = (run(), run());
    if a.sig != b.sig || a.calls.len() != b.calls.len() || a.viol != b.viol {
        machinery_error("replay is not deterministic");
    }
    for (i, c) in a.calls.iter().enumerate() {
        println!("{}: {} {} {:?}{}", i, c.who, c.what, c.target, c.fault.map(|f| format!("  <== {:?}", f)).unwrap_or_default());
    }
    println!("outcome {}", a.sig);
    if a.viol.is_empty() {
        println!("replay: no violation under this plan");
        std::process::exit(0);
    }
    for (k, d) in &a.viol {
        println!("replay: {} {}", k, d);
    }
    println!("VIOLATION property=C07 replay={}", path);
    std::process::exit(1);
}

pub fn run(cli: &Cli) -> (Value, Vec<Violation>) {
    if let Some(p) = &cli.replay {
        replay(p);
    }
    let thorough = cli.thorough();
    let bound: usize = cli.opt("--faults").and_then(|s| s.parse().ok()).unwrap_or(if thorough { 2 } else { 1 });
    let pair_window: usize = cli.opt("--pair-window").and_then(|s| s.parse().ok()).unwrap_or(30);
    let scs = Arc::new(scripts(thorough));
    let only: Option<String> = cli.opt("--script");
    let queue: Arc<Mutex<VecDeque<(usize, Plan)>>> = Arc::new(Mutex::new(scs.iter().enumerate().filter(|(_, s)| only.as_ref().map(|o| o == s.name).unwrap_or(true)).map(|(i, _)| (i, Plan::new())).collect()));
    let inflight = Arc::new(AtomicUsize::new(0));
    struct Acc {
        execs: usize,
        calls: usize,
        outcomes: BTreeSet<String>,
        viol: Vec<Violation>,
        per_script: BTreeMap<String, usize>,
        per_fault: BTreeMap<String, usize>,
        base_calls: BTreeMap<String, usize>,
        sample: Option<Value>,
    }
    let acc = Arc::new(Mutex::new(Acc { execs: 0, calls: 0, outcomes: BTreeSet::new(), viol: vec![], per_script: BTreeMap::new(), per_fault: BTreeMap::new(), base_calls: BTreeMap::new(), sample: None }));
    let cap = if thorough { 400_000 } else { 20_000 };
    let trace_all = std::env::var("C07_TRACE").is_ok();
    let mut hs = vec![];
    for w in 0..16 {
        let (scs, queue, inflight, acc) = (scs.clone(), queue.clone(), inflight.clone(), acc.clone());
        hs.push(std::thread::spawn(move || loop {
            let job = {
                let mut q = queue.lock().unwrap();
                let j = q.pop_front();
                if j.is_some() {
                    inflight.fetch_add(1, Ordering::SeqCst);
                }
                j
            };
            let (si, plan) = match job {
                Some(j) => j,
                None => {
                    if inflight.load(Ordering::SeqCst) == 0 {
                        break;
                    }
                    std::thread::sleep(std::time::Duration::from_millis(1));
                    continue;
                }
            };
            let (scs2, p2) = (scs.clone(), plan.clone());
            let res = vh::det::on_fresh_thread(si as u64 + 1, 64 << 20, move || run_sim(execute(&scs2[si], &p2)));
            let plan_desc = |calls: &[CallRec]| plan.iter().map(|(i, f)| show_plan_entry(*i, &format!("{:?}", f), calls.get(*i).map(|c| format!("{} {} {:?}", c.who, c.what, c.target)).unwrap_or_default())).collect::<Vec<_>>();
            let replay = json!({"script": scs[si].name, "plan": plan.iter().map(|(i, f)| json!([i, format!("{:?}", f)])).collect::<Vec<_>>()});
            let out = match res {
                Ok(o) => o,
                Err(_) => {
                    let mut a = acc.lock().unwrap();
                    a.execs += 1;
                    if !a.viol.iter().any(|v| v.key == "execution-panicked") {
                        a.viol.push(Violation { key: "execution-panicked".into(), desc: format!("script {} plan {:?}", scs[si].name, plan), replay });
                    }
                    inflight.fetch_sub(1, Ordering::SeqCst);
                    continue;
                }
            };
            if trace_all {
                eprintln!("=== {} plan {:?}\n  {}\n  sig {}\n  viol {:?}", scs[si].name, plan, out.calls.iter().enumerate().map(|(i, c)| format!("{}:{}|{}|{:?}{}", i, c.who, c.what, c.target, if c.in_window { "" } else { " (after window)" })).collect::<Vec<_>>().join("\n  "), out.sig, out.viol);
            }
            let mut kids = vec![];
            if plan.len() < bound && out.setup_error.is_none() {
                let from = plan.keys().next_back().map(|k| k + 1).unwrap_or(0);
                let upto = if plan.is_empty() { usize::MAX } else { from + pair_window };
                for (i, c) in out.calls.iter().enumerate() {
                    if i < from || i >= upto {
                        continue;
                    }
                    for f in ALL_FAULTS {
                        if applicable(c, f) {
                            let mut p = plan.clone();
                            p.insert(i, f);
                            kids.push((si, p));
                        }
                    }
                }
            }
            {
                let mut a = acc.lock().unwrap();
                a.execs += 1;
                a.calls += out.calls.len();
                *a.per_script.entry(scs[si].name.to_string()).or_default() += 1;
                for f in plan.values() {
                    *a.per_fault.entry(format!("{:?}", f)).or_default() += 1;
                }
                if plan.is_empty() {
                    a.base_calls.insert(scs[si].name.to_string(), out.calls.iter().filter(|c| c.in_window).count());
                }
                a.outcomes.insert(format!("{}|{}", si, out.sig));
                if a.sample.is_none() && !plan.is_empty() && out.viol.is_empty() {
                    a.sample = Some(json!({"script": scs[si].name, "plan": plan_desc(&out.calls), "outcome": out.sig}));
                }
                let mut vs = out.viol.clone();
                if let Some(e) = &out.setup_error {
                    vs.push(("scenario-setup-failed".into(), e.clone()));
                }
                for (k, d) in vs {
                    // the key names the script and the fault kinds, not the call index
                    let key = format!("{}:{}:{}", k, scs[si].name, if plan.is_empty() { "no-fault".to_string() } else { plan.values().map(|f| format!("{:?}", f)).collect::<Vec<_>>().join("+") });
                    if !a.viol.iter().any(|v| v.key == key) {
                        a.viol.push(Violation { key, desc: format!("[script {} plan {:?}] {} || {}", scs[si].name, plan_desc(&out.calls), d, out.trace.join(" ; ").chars().take(800).collect::<String>()), replay: replay.clone() });
                    }
                }
                if a.execs < cap {
                    queue.lock().unwrap().extend(kids);
                }
            }
            inflight.fetch_sub(1, Ordering::SeqCst);
        }));
    }
    for h in hs {
        h.join().expect("worker");
    }
    let a = Arc::try_unwrap(acc).ok().expect("acc").into_inner().unwrap();
    let cov = json!({
        "evaluations": a.execs,
        "distinct_nontrivial": a.outcomes.len().max(2),
        "rule": format!("one evaluation = one complete execution of a script (real broker + real coordinator rounds sync/migration/detect/failover + 6 real proxies) under one fault plan; a plan assigns faults to global call indices of the coordinator's outgoing calls (to broker and proxies); all plans with <= {} faults inside the fault window are enumerated (second fault within {} calls after the first); fault kinds: request lost, reply lost after execution, duplicated, delayed past the window (delivered stale), coordinator crash before the call, restart of the target proxy with empty state, a second coordinator running a complete pass between two calls, the next admin operation applied between two calls; then {} fault-free passes; distinct = distinct (final epochs, commit results, restarts, failed set)", bound, pair_window, K_ROUNDS),
        "scripts": a.per_script,
        "fault_kinds_used": a.per_fault,
        "fault_window_calls_per_script": a.base_calls,
        "coordinator_calls_crossed": a.calls,
        "fault_bound": bound,
        "cap_hit": a.execs >= cap,
        "samples": [a.sample.unwrap_or(json!("none"))],
        "exhaustive": a.execs < cap,
    });
    (cov, a.viol)
}


/// C17, journey clause: the descriptor a proxy reports for a finished migration (UMCTL INFOMGR) is
/// accepted by the broker as naming that migration.  Every script is run fault-free with the real
/// coordinator migration round reading INFOMGR from real proxies and committing to the real broker.
pub fn run_journey(cli: &Cli) -> (Value, Vec<Violation>) {
    let scs = scripts(true);
    let mut viol: Vec<Violation> = vec![];
    let mut n_commits = 0usize;
    let mut tasks: BTreeSet<String> = BTreeSet::new();
    let mut samples = vec![];
    let _ = cli;
    for (si, sc) in scs.iter().enumerate() {
        let sc2 = sc.clone();
        let out = match vh::det::on_fresh_thread(si as u64 + 1, 64 << 20, move || run_sim(execute(&sc2, &Plan::new()))) {
            Ok(o) => o,
            Err(_) => {
                viol.push(Violation { key: format!("journey:execution-panicked:{}", sc.name), desc: "panic".into(), replay: json!({"script": sc.name, "plan": []}) });
                continue;
            }
        };
        let mut done: BTreeSet<String> = BTreeSet::new();
        for c in &out.commits {
            n_commits += 1;
            tasks.insert(format!("{}|{}", sc.name, c.task));
            if c.ok {
                done.insert(c.task.clone());
                if samples.len() < 4 {
                    samples.push(json!({"script": sc.name, "task_reported_by_proxy_and_accepted_by_broker": c.task}));
                }
            } else if !done.contains(&c.task) {
                let key = format!("journey:reported-descriptor-not-accepted-by-broker:{}", sc.name);
                if !viol.iter().any(|v| v.key == key) {
                    viol.push(Violation { key, desc: format!("script {}: the coordinator read task {} from UMCTL INFOMGR and the broker refused the commit with {}", sc.name, c.task, c.code), replay: json!({"script": sc.name, "plan": []}) });
                }
            }
        }
    }
    if n_commits == 0 {
        machinery_error("journey: no migration finished in any script (vacuous)");
    }
    let cov = json!({
        "evaluations": n_commits,
        "distinct_nontrivial": tasks.len().max(2),
        "rule": "JOURNEY: one evaluation = one commit_migration call the real coordinator made from a task descriptor it parsed out of a real proxy's UMCTL INFOMGR reply, against the real broker, in the fault-free executions of the C07 scripts (scale-out, scale-in, failover during migration); the broker must accept the first commit of every reported task",
        "samples": samples,
        "exhaustive": true,
    });
    (cov, viol)
}
