//! C03 — live slot migration neither loses, duplicates nor resurrects data.
//!
//! Stateless deviation-bounded DFS over message-level schedules of a real migration (real broker,
//! real coordinator, 4 real proxies, Redis stand-ins) under concurrent client operations.  Every
//! request that crosses the harness network waits until the explorer releases it; the default
//! policy serves the oldest pending request, else submits the next client operation, else lets
//! 1 ms of simulated time pass; a deviation is any other choice.

use serde_json::{json, Value};
use std::collections::{BTreeMap, BTreeSet, VecDeque};
use std::sync::atomic::{AtomicUsize, Ordering};
use std::sync::{Arc, Mutex};
use undermoon::common::cluster::SlotRangeTag;
use undermoon::protocol::{Array, BulkStr, Resp, RespVec};
use vh::brokerlib::*;
use vh::clustersim::*;
use vh::report::*;
use vh::sim::*;

#[derive(Clone, Debug, PartialEq, Eq)]
pub enum COp {
    Get(usize),
    Set(usize, String),
    Del(usize),
    Incr(usize),
    Exists(usize),
    Expire(usize),
    Msetnx(String),  // k1 k2 (the two colliding keys)
    EvalGet,         // EVAL GETALL 2 k1 k2
}

#[derive(Clone, Debug)]
pub struct Scenario {
    pub init: [Option<(String, bool)>; 3], // per key: value, has ttl
    pub clients: Vec<(usize, Vec<COp>)>,   // start proxy role (0 = source, 1 = destination, 2 = bystander), ops
    pub thresholds: Vec<usize>,            // per client: its first operation becomes eligible once this many internal requests were served
    pub scan_count: u64,
    pub conn_num: usize,
    pub active_redirection: bool,
    pub wide: bool, // member of the wide thorough family (explored one deferral shallower)
    pub lone_deferral: bool, // a request may be deferred even when nothing else is pending at that moment (thorough)
    /// "slow scanner" variant of the default schedule: a pending SCAN of the migration's scan loop
    /// is served only when no other request is pending (the real scanner pauses between batches),
    /// so that the push / pull paths get ahead of the scan without spending deferrals on it
    pub slow_scan: bool,
}

impl Scenario {
    fn label(&self) -> String {
        format!("init {:?} clients {:?} start-after {:?} scan_count {} conns {} redirect {}{}", self.init, self.clients, self.thresholds, self.scan_count, self.conn_num, self.active_redirection, if self.slow_scan { " slow-scan" } else { "" })
    }
}

struct Setup {
    sim: ClusterSim,
    keys: [Vec<u8>; 3],
    roles: [String; 3], // source proxy, destination proxy, bystander proxy
    src_node: String,
    dst_node: String,
}

fn find_keys(lo: usize, hi: usize) -> ([Vec<u8>; 2], Vec<u8>) {
    // two keys inside [lo, hi] that share a lock slot (CRC16-ARC), one key outside the range
    let mut by_lock: BTreeMap<usize, Vec<u8>> = BTreeMap::new();
    let mut pair = None;
    let mut outside = None;
    let mut i = 0u64;
    while pair.is_none() || outside.is_none() {
        let k = format!("key{}", i).into_bytes();
        let s = vh::c09keys::ref_slot(&k);
        if s >= lo && s <= hi {
            let l = undermoon::common::utils::generate_lock_slot(&k);
            if pair.is_none() {
                if let Some(o) = by_lock.get(&l) {
                    pair = Some([o.clone(), k.clone()]);
                } else {
                    by_lock.insert(l, k);
                }
            }
        } else if outside.is_none() && s < lo {
            outside = Some(k);
        }
        i += 1;
    }
    (pair.unwrap(), outside.unwrap())
}

async fn setup(sc: &Scenario) -> Result<Setup, String> {
    let cfg = BrokerCfg { ordered: false, migration_limit: 1, failure_quorum: 1, failure_ttl: 100000 };
    let opts = ProxyOpts { backend_conn_num: sc.conn_num, active_redirection: sc.active_redirection, ..Default::default() };
    let sim = ClusterSim::new(&[2, 2], &cfg, &opts, None);
    for op in [Op::AddCluster { name: "c1".into(), n: 4 }, Op::AutoAddNodes { name: "c1".into(), n: 4 }] {
        let r = sim.apply(&op);
        if !r.starts_with("OK") {
            return Err(format!("{:?} -> {}", op, r));
        }
    }
    if sc.scan_count != 16 {
        sim.apply(&Op::ChangeConfig { name: "c1".into(), k: "migration_scan_count".into(), v: sc.scan_count.to_string() });
    }
    // everybody learns the 8-node cluster first (the new proxies own nothing yet)
    sim.sync_until_converged(false, 4).await?;
    let r = sim.apply(&Op::MigrateSlots { name: "c1".into() });
    if !r.starts_with("OK") {
        return Err(format!("migrate -> {}", r));
    }
    let c = sim.broker.broker.cluster("c1").ok_or("no cluster")?;
    let mut found = None;
    for n in c.get_nodes() {
        for s in n.get_slots() {
            if let SlotRangeTag::Migrating(m) = &s.tag {
                let r = s.get_range_list().get_ranges().first().cloned().ok_or("empty range")?;
                found = Some((m.clone(), r.start(), r.end()));
            }
        }
    }
    let (m, lo, hi) = found.ok_or("no served migration")?;
    let (pair, outside) = find_keys(lo, hi);
    let keys = [pair[0].clone(), pair[1].clone(), outside];
    let bystander = sim.proxies.iter().map(|p| p.0.clone()).find(|p| *p != m.src_proxy_address && *p != m.dst_proxy_address).ok_or("no bystander")?;
    // initial contents live where the cluster currently routes them
    for (i, init) in sc.init.iter().enumerate() {
        if let Some((v, ttl)) = init {
            let node = if i < 2 { m.src_node_address.clone() } else { owner_of(&sim, &keys[2])? };
            sim.world.with_redis(&node, |r, now| {
                r.exec(&vec![b"SET".to_vec(), keys[i].clone(), v.clone().into_bytes()], now);
                if *ttl {
                    r.exec(&vec![b"EXPIRE".to_vec(), keys[i].clone(), b"100".to_vec()], now);
                }
            });
        }
    }
    Ok(Setup { sim, keys, roles: [m.src_proxy_address.clone(), m.dst_proxy_address.clone(), bystander], src_node: m.src_node_address.clone(), dst_node: m.dst_node_address.clone() })
}

fn owner_of(sim: &ClusterSim, key: &[u8]) -> Result<String, String> {
    let slot = vh::c09keys::ref_slot(key);
    let c = sim.broker.broker.cluster("c1").ok_or("no cluster")?;
    for n in c.get_nodes() {
        for s in n.get_slots() {
            if s.tag.is_importing() {
                continue;
            }
            for r in s.get_range_list().get_ranges() {
                if r.start() <= slot && slot <= r.end() {
                    return Ok(n.get_address().to_string());
                }
            }
        }
    }
    Err("no owner".into())
}

#[derive(Clone, Debug)]
pub struct Done {
    pub client: usize,
    pub op: COp,
    pub inv: usize,
    pub resp: usize,
    pub reply: String,
}

fn op_cmd(op: &COp, keys: &[Vec<u8>; 3]) -> Cmd {
    let b = |s: &str| s.as_bytes().to_vec();
    match op {
        COp::Get(k) => vec![b("GET"), keys[*k].clone()],
        COp::Set(k, v) => vec![b("SET"), keys[*k].clone(), v.clone().into_bytes()],
        COp::Del(k) => vec![b("DEL"), keys[*k].clone()],
        COp::Incr(k) => vec![b("INCR"), keys[*k].clone()],
        COp::Exists(k) => vec![b("EXISTS"), keys[*k].clone()],
        COp::Expire(k) => vec![b("EXPIRE"), keys[*k].clone(), b("100")],
        COp::Msetnx(v) => vec![b("MSETNX"), keys[0].clone(), v.clone().into_bytes(), keys[1].clone(), v.clone().into_bytes()],
        COp::EvalGet => vec![b("EVAL"), b("GETALL"), b("2"), keys[0].clone(), keys[1].clone()],
    }
}

pub struct RunOut {
    pub menus: Vec<(usize, usize, usize)>, // (menu length, chosen index, default index)
    pub done: Vec<Done>,
    pub horizon_hit: bool,
    pub committed: bool,
    pub final_src: BTreeMap<usize, (String, bool)>,
    pub final_dst: BTreeMap<usize, (String, bool)>,
    pub final_other: BTreeMap<usize, (String, bool)>,
    pub trace: Vec<String>,
    pub setup_error: Option<String>,
}

async fn run_schedule(sc: &Scenario, prefix: &[usize], horizon: usize) -> RunOut {
    let mut out = RunOut { menus: vec![], done: vec![], horizon_hit: false, committed: false, final_src: BTreeMap::new(), final_dst: BTreeMap::new(), final_other: BTreeMap::new(), trace: vec![], setup_error: None };
    let st = match setup(sc).await {
        Ok(s) => s,
        Err(e) => {
            out.setup_error = Some(e);
            return out;
        }
    };
    let world = st.sim.world.clone();
    // from now on every internal request waits for the explorer; the coordinator's own calls pass
    world.set_gate(Some(Box::new(|r: &ReqInfo| if r.from == "coordinator" { Gate::Pass } else { Gate::Hold })));
    // deliver the migration metadata (real sync round)
    if let Err(e) = st.sim.sync_until_converged(false, 4).await {
        out.setup_error = Some(e);
        return out;
    }
    let done: Arc<Mutex<Vec<Done>>> = Arc::new(Mutex::new(vec![]));
    let busy: Arc<Vec<AtomicUsize>> = Arc::new((0..sc.clients.len()).map(|_| AtomicUsize::new(0)).collect());
    let mut next_op: Vec<usize> = vec![0; sc.clients.len()];
    let step = Arc::new(AtomicUsize::new(0));
    let mut committed = false;
    let mut quiet_after_commit = 0;
    let mut served = 0usize;
    // deferred subject -> number of serves after which the deferral lapses (the real proxies
    // retry in a tight loop while a key lock is held, so "everything else" may never drain)
    let mut deferred_reqs: BTreeMap<u64, usize> = BTreeMap::new();
    let mut deferred_clients: BTreeMap<usize, usize> = BTreeMap::new();
    const DEFER_SPAN: usize = 16;
    loop {
        // long internal task chains (reply -> handler -> queue -> backend task -> connection) need
        // more than one quiet period to surface their next request
        for _ in 0..3 {
            world.settle().await;
        }
        let s = step.load(Ordering::SeqCst);
        let all_clients_done = (0..sc.clients.len()).all(|c| next_op[c] >= sc.clients[c].1.len() && busy[c].load(Ordering::SeqCst) == 0);
        // commit as soon as the source reports the task finished (real coordinator round)
        if !committed {
            let r = world.client(&st.roles[0], &cmd(&["UMCTL", "INFOMGR"])).await;
            if let Resp::Arr(Array::Arr(a)) = &r {
                if !a.is_empty() {
                    st.sim.migration_round("coordinator", false).await;
                    world.settle().await;
                    committed = true;
                    out.trace.push(format!("{}: commit", s));
                }
            }
        }
        let pending = world.pending_infos();
        if committed && all_clients_done {
            quiet_after_commit += 1;
            if quiet_after_commit > 6 {
                break;
            }
        }
        if s >= horizon {
            out.horizon_hit = true;
            break;
        }
        // Default action: submit the operation of the first eligible idle client, else serve the
        // oldest non-deferred pending request, else serve the oldest deferred one, else +1 ms.
        // The only alternative at a step is to DEFER the subject of the default action (delay
        // bounding): a deferred client / request is not chosen again before everything else that
        // is pending has been served.  One deviation = one deferral.
        let mut eligible_clients: Vec<usize> = vec![];
        for c in 0..sc.clients.len() {
            let eligible = next_op[c] > 0 || served >= sc.thresholds[c] || (pending.is_empty() && committed);
            if next_op[c] < sc.clients[c].1.len() && busy[c].load(Ordering::SeqCst) == 0 && eligible {
                eligible_clients.push(c);
            }
        }
        let held_c = |c: &usize| deferred_clients.get(c).map(|u| s < *u).unwrap_or(false);
        let held_r = |id: &u64| deferred_reqs.get(id).map(|u| s < *u).unwrap_or(false);
        let fresh_clients: Vec<usize> = eligible_clients.iter().cloned().filter(|c| !held_c(c)).collect();
        let is_scan = |p: &ReqInfo| p.cmds.first().and_then(|c| c.first()).map(|b| b.eq_ignore_ascii_case(b"SCAN")).unwrap_or(false);
        let mut fresh_reqs: Vec<&ReqInfo> = pending.iter().filter(|p| !held_r(&p.id)).collect();
        if sc.slow_scan {
            // stable: everything else in arrival order, then the scan loop's SCAN requests
            fresh_reqs.sort_by_key(|p| is_scan(p));
        }
        let old_reqs: Vec<&ReqInfo> = pending.iter().filter(|p| held_r(&p.id)).collect();
        // (kind, id): 1 = client op, 0 = serve request, 2 = advance
        let default_action: (u8, u64) = if let Some(c) = fresh_clients.first() {
            (1, *c as u64)
        } else if let Some(r) = fresh_reqs.first() {
            (0, r.id)
        } else if !old_reqs.is_empty() || eligible_clients.iter().any(|c| held_c(c)) {
            // only deferred subjects are enabled: let time pass (their deferral lapses after
            // DEFER_SPAN steps), so that requests still in flight inside the proxies can overtake
            (2, 0)
        } else if let Some(c) = eligible_clients.first() {
            (1, *c as u64)
        } else {
            (2, 0)
        };
        let can_defer = match default_action {
            (1, c) => !deferred_clients.contains_key(&(c as usize)) && (sc.lone_deferral || !pending.is_empty() || eligible_clients.len() > 1),
            (0, id) => !deferred_reqs.contains_key(&id) && (sc.lone_deferral || pending.len() > 1 || !eligible_clients.is_empty()),
            _ => false,
        };
        let menu_len = if can_defer { 2 } else { 1 };
        let i = out.menus.len();
        let chosen = if i < prefix.len() { prefix[i].min(menu_len - 1) } else { 0 };
        out.menus.push((menu_len, chosen, 0));
        step.fetch_add(1, Ordering::SeqCst);
        if chosen == 1 {
            match default_action {
                (1, c) => {
                    deferred_clients.insert(c as usize, s + DEFER_SPAN);
                    out.trace.push(format!("{}: DEFER client {}", s, c));
                }
                (0, id) => {
                    deferred_reqs.insert(id, s + DEFER_SPAN);
                    if let Some(p) = pending.iter().find(|p| p.id == id) {
                        out.trace.push(format!("{}: DEFER {}->{} {}", s, p.from, p.to, p.cmds.first().map(show_cmd).unwrap_or_default().chars().take(40).collect::<String>()));
                    }
                }
                _ => {}
            }
            continue;
        }
        match default_action {
            (0, id) => {
                if let Some(p) = pending.iter().find(|p| p.id == id) {
                    out.trace.push(format!("{}: serve {}->{} {}", s, p.from, p.to, p.cmds.first().map(show_cmd).unwrap_or_default().chars().take(40).collect::<String>()));
                }
                world.release(id, Release::Serve);
                served += 1;
            }
            (1, c) => {
                let c = c as usize;
                let op = sc.clients[c].1[next_op[c]].clone();
                next_op[c] += 1;
                busy[c].store(1, Ordering::SeqCst);
                out.trace.push(format!("{}: client {} {:?}", s, c, op));
                let (world2, done2, busy2, step2) = (world.clone(), done.clone(), busy.clone(), step.clone());
                let start = st.roles[sc.clients[c].0].clone();
                let cmdv = op_cmd(&op, &st.keys);
                tokio::spawn(async move {
                    let inv = step2.load(Ordering::SeqCst);
                    let mut cur = start;
                    let mut hops = 0;
                    let reply = loop {
                        let r = world2.client(&cur, &cmdv).await;
                        if let Resp::Error(e) = &r {
                            let t = String::from_utf8_lossy(e).to_string();
                            if t.starts_with("MOVED ") && hops < 8 {
                                if let Some(a) = t.split(' ').nth(2) {
                                    cur = a.to_string();
                                    hops += 1;
                                    continue;
                                }
                            }
                        }
                        break r;
                    };
                    done2.lock().unwrap().push(Done { client: c, op, inv, resp: step2.load(Ordering::SeqCst), reply: show_resp(&reply) });
                    busy2[c].store(0, Ordering::SeqCst);
                    world2.bump();
                });
            }
            _ => {
                out.trace.push(format!("{}: advance 1ms", s));
                tokio::time::advance(std::time::Duration::from_millis(1)).await;
            }
        }
    }
    out.committed = committed;
    out.done = done.lock().unwrap().clone();
    let snap = |node: &str| -> BTreeMap<usize, (String, bool)> {
        let mut m = BTreeMap::new();
        for (i, k) in st.keys.iter().enumerate() {
            if let Some(Some(e)) = world.with_redis(node, |r, now| {
                r.exec(&vec![b"EXISTS".to_vec(), k.clone()], now);
                r.data.get(k).cloned()
            }) {
                m.insert(i, (String::from_utf8_lossy(&e.val).to_string(), e.expire_at.is_some()));
            }
        }
        m
    };
    out.final_src = snap(&st.src_node);
    out.final_dst = snap(&st.dst_node);
    if let Ok(o) = owner_of(&st.sim, &st.keys[2]) {
        out.final_other = snap(&o);
    }
    out
}

// ------------------------------------------------------------------------------------------------
// oracle: linearizability of a 3-key register map with INCR / MSETNX / EVAL + final contents

type KV = [Option<(String, bool)>; 3];

fn apply_model(st: &mut KV, op: &COp) -> String {
    match op {
        COp::Get(k) => st[*k].as_ref().map(|v| format!("${}", v.0)).unwrap_or_else(|| "$nil".into()),
        COp::Set(k, v) => {
            st[*k] = Some((v.clone(), false));
            "+OK".into()
        }
        COp::Del(k) => {
            let had = st[*k].is_some();
            st[*k] = None;
            format!(":{}", had as u8)
        }
        COp::Incr(k) => {
            let (cur, ttl) = match &st[*k] {
                Some((v, t)) => (v.parse::<i64>().ok(), *t),
                None => (Some(0), false),
            };
            match cur {
                Some(n) => {
                    st[*k] = Some(((n + 1).to_string(), ttl));
                    format!(":{}", n + 1)
                }
                None => "-ERR value is not an integer or out of range".into(),
            }
        }
        COp::Exists(k) => format!(":{}", st[*k].is_some() as u8),
        COp::Expire(k) => {
            if let Some(v) = st[*k].as_mut() {
                v.1 = true;
                ":1".into()
            } else {
                ":0".into()
            }
        }
        COp::Msetnx(v) => {
            if st[0].is_some() || st[1].is_some() {
                ":0".into()
            } else {
                st[0] = Some((v.clone(), false));
                st[1] = Some((v.clone(), false));
                ":1".into()
            }
        }
        COp::EvalGet => {
            let f = |x: &Option<(String, bool)>| x.as_ref().map(|v| format!("${}", v.0)).unwrap_or_else(|| "$nil".into());
            format!("[{}, {}]", f(&st[0]), f(&st[1]))
        }
    }
}

/// Is there a linearization of the completed operations (errors may be placed with no effect or
/// omitted) whose final state equals the observed final contents?
fn linearizable(init: &KV, ops: &[Done], final_state: &KV) -> bool {
    fn rec(st: &KV, ops: &[Done], used: &mut Vec<bool>, final_state: &KV) -> bool {
        if used.iter().all(|u| *u) {
            return st == final_state;
        }
        for i in 0..ops.len() {
            if used[i] {
                continue;
            }
            // real-time order: nothing unused may have responded before this one was invoked
            if (0..ops.len()).any(|j| !used[j] && j != i && ops[j].resp < ops[i].inv) {
                continue;
            }
            let is_err = ops[i].reply.starts_with('-');
            let mut s2 = st.clone();
            let r = apply_model(&mut s2, &ops[i].op);
            used[i] = true;
            let ok = if is_err {
                // an operation answered with an error may have had no effect ...
                rec(st, ops, used, final_state) || rec(&s2, ops, used, final_state)
            } else {
                r == ops[i].reply && rec(&s2, ops, used, final_state)
            };
            used[i] = false;
            if ok {
                return true;
            }
        }
        false
    }
    rec(init, ops, &mut vec![false; ops.len()], final_state)
}

fn judge(sc: &Scenario, out: &RunOut) -> Vec<(String, String)> {
    let mut v = vec![];
    if let Some(e) = &out.setup_error {
        v.push(("scenario-setup-failed".into(), e.clone()));
        return v;
    }
    if out.horizon_hit {
        return v; // counted separately; C03 does not promise termination
    }
    let init: KV = sc.init.clone();
    // observed final contents: keys 0,1 must live on the destination only, key 2 where it was
    let mut fin: KV = [None, None, None];
    for k in 0..2 {
        if out.final_src.contains_key(&k) {
            v.push(("key-left-on-source-after-commit".into(), format!("key {} still on the source node with {:?}", k, out.final_src.get(&k))));
        }
        fin[k] = out.final_dst.get(&k).cloned();
    }
    fin[2] = out.final_other.get(&2).cloned();
    // ttl flag is part of the state only as "has expiry"
    if !linearizable(&init, &out.done, &fin) {
        v.push((
            "history-not-linearizable-with-final-contents".into(),
            format!(
                "operations {:?} with final contents dst {:?} src {:?} other {:?} admit no sequential explanation from {:?}",
                out.done.iter().map(|d| format!("c{}:{:?}@[{},{}]={}", d.client, d.op, d.inv, d.resp, d.reply)).collect::<Vec<_>>(),
                out.final_dst, out.final_src, out.final_other, init
            ),
        ));
    }
    v
}

// ------------------------------------------------------------------------------------------------

fn scenarios(thorough: bool) -> Vec<Scenario> {
    let p = |v: &str| Some((v.to_string(), false));
    let pt = |v: &str| Some((v.to_string(), true));
    let mut s = vec![];
    let grid: Vec<usize> = if thorough { vec![0, 4, 6, 9, 12] } else { vec![0, 4, 9] };
    let mut push = |init: [Option<(String, bool)>; 3], clients: Vec<(usize, Vec<COp>)>, scan_count: u64, conn_num: usize, red: bool| {
        for a in &grid {
            for b in &grid {
                s.push(Scenario { init: init.clone(), clients: clients.clone(), thresholds: vec![*a, *b], scan_count, conn_num, active_redirection: red, wide: false, lone_deferral: thorough, slow_scan: false });
            }
        }
    };
    use COp::*;
    // quick set: one deleting command, one write, one read, counter, multi-key
    push([p("a"), p("b"), p("c")], vec![(1, vec![Set(0, "x".into())]), (0, vec![Get(0)])], 16, 1, false);
    push([p("a"), p("b"), p("c")], vec![(1, vec![Del(0)]), (2, vec![Get(0), Set(0, "y".into())])], 1, 1, false);
    push([p("5"), None, p("c")], vec![(1, vec![Incr(0)]), (0, vec![Incr(0)])], 16, 1, false);
    push([None, None, p("c")], vec![(1, vec![Msetnx("m".into())]), (2, vec![Set(1, "z".into())])], 16, 1, false);
    push([pt("a"), p("b"), p("c")], vec![(1, vec![Expire(1)]), (0, vec![Set(0, "w".into()), Get(1)])], 1, 2, false);
    push([p("a"), p("b"), p("c")], vec![(2, vec![EvalGet]), (1, vec![Set(1, "q".into())])], 16, 1, true);
    // one deleting / expiring command racing with the scan, nothing that could mask a resurrection
    push([p("a"), p("b"), p("c")], vec![(1, vec![Del(0)]), (0, vec![Exists(1)])], 1, 1, false);
    push([p("a"), p("b"), p("c")], vec![(2, vec![Del(1)]), (1, vec![Get(2)])], 16, 1, false);
    push([p("a"), pt("b"), p("c")], vec![(1, vec![Expire(0)]), (0, vec![Get(2)])], 1, 1, false);
    push([p("a"), p("b"), p("c")], vec![(1, vec![Set(0, "n".into())]), (0, vec![Get(2)])], 1, 1, false);
    push([p("1"), p("b"), p("c")], vec![(1, vec![Incr(0)]), (2, vec![Get(2)])], 1, 1, false);
    // write / delete followed by a read of the same key by the same client
    push([p("a"), p("b"), p("c")], vec![(1, vec![Del(0), Get(0)]), (0, vec![Get(2)])], 1, 1, false);
    push([p("a"), p("b"), p("c")], vec![(2, vec![Del(1), Exists(1)]), (1, vec![Get(2)])], 16, 1, false);
    push([p("a"), p("b"), p("c")], vec![(1, vec![Set(0, "n".into()), Get(0)]), (0, vec![Get(2)])], 1, 1, false);
    if thorough {
        for (sc, cn, red) in [(1u64, 1usize, false), (16, 2, false), (1, 1, true)] {
            for a in [Get(0), Set(0, "s1".into()), Del(0), Incr(0), Exists(0), Expire(0)] {
                for b in [Get(0), Set(0, "s2".into()), Del(0), Set(1, "s3".into())] {
                    for (ra, rb) in [(1usize, 0usize), (2, 1), (0, 2)] {
                        push([p("7"), pt("b"), p("c")], vec![(ra, vec![a.clone()]), (rb, vec![b.clone()])], sc, cn, red);
                    }
                }
            }
            push([None, None, None], vec![(1, vec![Msetnx("m".into()), Get(0)]), (0, vec![Set(0, "k".into()), Del(1)])], sc, cn, red);
            push([p("a"), None, p("c")], vec![(1, vec![EvalGet, Set(1, "e".into())]), (2, vec![Del(0), Get(1)])], sc, cn, red);
        }
    }
    let core = 14 * grid.len() * grid.len(); // the fourteen families pushed before the wide block
    for (i, x) in s.iter_mut().enumerate() {
        x.wide = i >= core;
    }
    // slow-scanner variants (appended, so that the indices of the scenarios above stay stable):
    // the core scenarios with a command that takes the push path (UMSYNC) or expires a key,
    // submitted once the migration is past its pre-switch
    let pushes = |c: &Vec<(usize, Vec<COp>)>| c.iter().any(|(_, ops)| ops.iter().any(|o| matches!(o, Del(_) | Expire(_))));
    let extra: Vec<Scenario> = s[..core].iter().filter(|x| pushes(&x.clients) && x.thresholds.iter().all(|t| *t >= 4)).cloned().map(|mut x| { x.slow_scan = true; x }).collect();
    s.extend(extra);
    // dense start points: one deleting / expiring command through the destination proxy, started
    // after every number 0..=14 of served requests, so that it lands in every gap of the scan of
    // its key (between SCAN, PTTL+DUMP, RESTORE, DEL) whatever the batch size
    for scan_count in [1u64, 16] {
        for a in 0..=14usize {
            for (op, other) in [(Del(0), Get(2)), (Del(1), Exists(2)), (Expire(0), Get(2))] {
                if !thorough && !matches!(op, Del(0)) {
                    continue;
                }
                s.push(Scenario { init: [p("a"), p("b"), p("c")], clients: vec![(1, vec![op, Get(2)]), (0, vec![other])], thresholds: vec![a, 0], scan_count, conn_num: 1, active_redirection: false, wide: false, lone_deferral: thorough, slow_scan: false });
            }
        }
    }
    s
}

/// `--replay <file>`: re-run one recorded schedule twice (must be identical) without the explorer.
fn replay(path: &str) -> ! {
    let body: Value = serde_json::from_str(&std::fs::read_to_string(path).unwrap_or_default()).unwrap_or(Value::Null);
    let rp = &body["replay"];
    let thorough = rp["tier"].as_str() == Some("thorough");
    let si = rp["scenario"].as_u64().unwrap_or(0) as usize;
    let choices: Vec<usize> = rp["choices"].as_array().map(|a| a.iter().map(|x| x.as_u64().unwrap_or(0) as usize).collect()).unwrap_or_default();
    let scs = Arc::new(scenarios(thorough));
    if si >= scs.len() {
        machinery_error("replay: no such scenario");
    }
    let run = || {
        let (scs2, c2) = (scs.clone(), choices.clone());
        match vh::det::on_fresh_thread(si as u64 + 1, 32 << 20, move || run_sim(run_schedule(&scs2[si], &c2, 600))) {
            Ok(o) => o,
            Err(_) => {
                println!("replay: the execution panicked");
                println!("VIOLATION property=C03 replay={}", path);
                std::process::exit(1);
            }
        }
    };
    let (a, b) = (run(), run());
    if a.trace != b.trace || format!("{:?}", a.done) != format!("{:?}", b.done) {
        machinery_error("replay is not deterministic");
    }
    println!("scenario {}\n{}", scs[si].label(), a.trace.join("\n"));
    println!("operations {:?}\nfinal dst {:?} src {:?} other {:?}", a.done, a.final_dst, a.final_src, a.final_other);
    let v = judge(&scs[si], &a);
    if v.is_empty() {
        println!("replay: no violation on this schedule");
        std::process::exit(0);
    }
    for (k, d) in &v {
        println!("replay: {} {}", k, d);
    }
    println!("VIOLATION property=C03 replay={}", path);
    std::process::exit(1);
}

pub fn run(cli: &Cli) -> (Value, Vec<Violation>) {
    if let Some(p) = &cli.replay {
        replay(p);
    }
    let thorough = cli.thorough();
    let bound: usize = cli.opt("--deviations").and_then(|s| s.parse().ok()).unwrap_or(if thorough { 3 } else { 2 }).max(1);
    let horizon = 600;
    let scs = Arc::new(scenarios(thorough));
    let only: Option<usize> = std::env::var("C03_SCEN").ok().and_then(|s| s.parse().ok());
    let queue: Arc<Mutex<VecDeque<(usize, Vec<usize>)>>> = Arc::new(Mutex::new((0..scs.len()).filter(|i| only.map(|o| o == *i).unwrap_or(true)).map(|i| (i, vec![])).collect()));
    let inflight = Arc::new(AtomicUsize::new(0));
    struct Acc {
        execs: usize,
        steps: usize,
        horizon_hits: usize,
        outcomes: BTreeSet<String>,
        viol: Vec<Violation>,
        per_scenario: BTreeMap<usize, usize>,
        sample: Option<Value>,
    }
    let acc = Arc::new(Mutex::new(Acc { execs: 0, steps: 0, horizon_hits: 0, outcomes: BTreeSet::new(), viol: vec![], per_scenario: BTreeMap::new(), sample: None }));
    let cap = if thorough { 1_500_000 } else { 60_000 };
    let mut hs = vec![];
    for w in 0..16 {
        let (scs, queue, inflight, acc) = (scs.clone(), queue.clone(), inflight.clone(), acc.clone());
        hs.push(std::thread::spawn(move || loop {
            let job = {
                let mut q = queue.lock().unwrap();
                let j = q.pop_front();
                if j.is_some() {
                    inflight.fetch_add(1, Ordering::SeqCst);
                }
                j
            };
            let (si, prefix) = match job {
                Some(j) => j,
                None => {
                    if inflight.load(Ordering::SeqCst) == 0 {
                        break;
                    }
                    std::thread::sleep(std::time::Duration::from_millis(1));
                    continue;
                }
            };
            let (scs2, p2) = (scs.clone(), prefix.clone());
            let out = vh::det::on_fresh_thread(si as u64 + 1, 32 << 20, move || run_sim(run_schedule(&scs2[si], &p2, horizon)));
            let out = match out {
                Ok(o) => o,
                Err(_) => {
                    let mut a = acc.lock().unwrap();
                    a.execs += 1;
                    if a.viol.iter().filter(|v| v.key == "execution-panicked").count() < 1 {
                        a.viol.push(Violation { key: "execution-panicked".into(), desc: format!("scenario {} prefix {:?}", scs[si].label(), prefix), replay: json!({"tier": if thorough { "thorough" } else { "quick" }, "scenario": si, "choices": prefix}) });
                    }
                    inflight.fetch_sub(1, Ordering::SeqCst);
                    continue;
                }
            };
            if std::env::var("C03_TRACE_HORIZON").is_ok() && out.horizon_hit {
                eprintln!("=== HORIZON scenario {} {} prefix {:?}\n{}", si, scs[si].label(), prefix, out.trace.iter().take(120).cloned().collect::<Vec<_>>().join("\n"));
                std::process::exit(3);
            }
            if std::env::var("C03_TRACE").map(|v| v == "all" || prefix.is_empty()).unwrap_or(false) {
                eprintln!("=== scenario {} {}\n{}\n done {:?}\n dst {:?} src {:?} other {:?} committed {} horizon {}", si, scs[si].label(), out.trace.join("\n"), out.done, out.final_dst, out.final_src, out.final_other, out.committed, out.horizon_hit);
            }
            let viol = judge(&scs[si], &out);
            let devs_of = |choices: &[(usize, usize, usize)]| choices.iter().filter(|m| m.1 != m.2).count();
            let mut kids = vec![];
            let base = devs_of(&out.menus[..prefix.len().min(out.menus.len())]);
            if base < bound - scs[si].wide as usize {
                for (i, m) in out.menus.iter().enumerate() {
                    if i < prefix.len() {
                        continue;
                    }
                    // deviations accumulated up to i (all default after the prefix)
                    for alt in 0..m.0 {
                        if alt == m.1 {
                            continue;
                        }
                        let mut p: Vec<usize> = out.menus[..i].iter().map(|x| x.1).collect();
                        p.push(alt);
                        kids.push((si, p));
                    }
                }
            }
            {
                let mut a = acc.lock().unwrap();
                a.execs += 1;
                a.steps += out.menus.len();
                *a.per_scenario.entry(si).or_default() += 1;
                if out.horizon_hit {
                    a.horizon_hits += 1;
                }
                a.outcomes.insert(format!("{}|{:?}|{:?}", si, out.done.iter().map(|d| d.reply.clone()).collect::<Vec<_>>(), out.final_dst));
                if a.sample.is_none() && !prefix.is_empty() {
                    a.sample = Some(json!({"scenario": scs[si].label(), "choices": prefix, "trace_head": out.trace.iter().take(25).collect::<Vec<_>>(), "replies": out.done.iter().map(|d| format!("{:?} -> {}", d.op, d.reply)).collect::<Vec<_>>()}));
                }
                for (k, d) in viol {
                    if a.viol.iter().filter(|v| v.key == k).count() < 1 {
                        a.viol.push(Violation { key: k, desc: format!("[{}] choices {:?}: {} || trace: {}", scs[si].label(), out.menus.iter().map(|m| m.1).collect::<Vec<_>>(), d, out.trace.join(" ; ").chars().take(1500).collect::<String>()), replay: json!({"tier": if thorough { "thorough" } else { "quick" }, "scenario": si, "choices": out.menus.iter().map(|m| m.1).collect::<Vec<_>>()}) });
                    }
                }
                if a.execs < cap {
                    queue.lock().unwrap().extend(kids);
                }
            }
            inflight.fetch_sub(1, Ordering::SeqCst);
        }));
    }
    for h in hs {
        h.join().expect("worker");
    }
    let a = Arc::try_unwrap(acc).ok().expect("acc").into_inner().unwrap();
    let cov = json!({
        "evaluations": a.execs,
        "distinct_nontrivial": a.outcomes.len().max(2),
        "rule": format!("one evaluation = one complete execution of a scenario (4->8 node scale-out with migration_limit 1, focus migration between real proxies, 2 clients with 1-2 operations on two keys that share a migration lock slot + one key outside the range, initial contents absent/present/with TTL) under one message-level schedule; all schedules with <= {} deferrals are enumerated (default: submit the next eligible client operation, else serve the oldest pending request, else +1 ms; a deferral postpones the subject of the default action for the next 16 explorer steps (serves, client submissions or 1 ms ticks) - delay bounding); distinct = distinct (scenario, reply vector, final destination contents)", bound),
        "scenarios": scs.len(),
        "executions_per_scenario": a.per_scenario.values().cloned().collect::<Vec<_>>(),
        "choice_points": a.steps,
        "horizon_hits": a.horizon_hits,
        "deviation_bound": bound,
        "deviation_bound_wide_family": bound.saturating_sub(1),
        "cap_hit": a.execs >= cap,
        "samples": [a.sample.unwrap_or(json!("no deviating execution"))],
        "exhaustive": a.execs < cap,
    });
    (cov, a.viol)
}
