//! helpers shared by the simnet drivers

/// one key per slot ("k<n>"), computed with the reference slot function
pub fn slot_keys() -> Vec<Vec<u8>> {
    let mut out: Vec<Option<Vec<u8>>> = vec![None; 16384];
    let mut left = 16384;
    let mut n = 0u64;
    while left > 0 {
        let k = format!("k{}", n).into_bytes();
        let s = vh::c09keys::ref_slot(&k);
        if out[s].is_none() {
            out[s] = Some(k);
            left -= 1;
        }
        n += 1;
    }
    out.into_iter().map(|o| o.unwrap()).collect()
}
