//! hostile — C16: no client input can crash, abort or wedge a proxy.
//!
//! Bounded-exhaustive input families are fed to the real session decoder (`RespCodec`) and the
//! real `ForwardHandler` inside a *child process* with a counting global allocator.  The parent
//! watches: child death (signal / abort / stack overflow), wall-clock per request, and the
//! per-request report (panic caught, peak extra bytes, largest single allocation, reply / close,
//! a second connection still answered).

use bytes::BytesMut;
use serde_json::{json, Value};
use std::alloc::{GlobalAlloc, Layout, System};
use std::io::{BufRead, BufReader, Write};
use std::process::{Command as PCommand, Stdio};
use std::sync::atomic::{AtomicUsize, Ordering};
use std::time::{Duration, Instant};
use tokio_util::codec::Decoder;
use undermoon::protocol::{new_simple_packet_codec, RespCodec, RespPacket};
use vh::report::*;
use vh::sim::*;

// ------------------------------------------------------------------------------------------------
// counting allocator

struct Counting;
static LIVE: AtomicUsize = AtomicUsize::new(0);
static PEAK: AtomicUsize = AtomicUsize::new(0);
static MAXREQ: AtomicUsize = AtomicUsize::new(0);
const REFUSE_ABOVE: usize = 1 << 30;

unsafe impl GlobalAlloc for Counting {
    unsafe fn alloc(&self, l: Layout) -> *mut u8 {
        let n = l.size();
        let prev = MAXREQ.load(Ordering::Relaxed);
        if n > prev {
            MAXREQ.store(n, Ordering::Relaxed);
        }
        if n > REFUSE_ABOVE {
            // overcommit must not hide an attacker-controlled allocation size
            return std::ptr::null_mut();
        }
        let p = System.alloc(l);
        if !p.is_null() {
            let live = LIVE.fetch_add(n, Ordering::Relaxed) + n;
            if live > PEAK.load(Ordering::Relaxed) {
                PEAK.store(live, Ordering::Relaxed);
            }
        }
        p
    }
    unsafe fn dealloc(&self, p: *mut u8, l: Layout) {
        LIVE.fetch_sub(l.size(), Ordering::Relaxed);
        System.dealloc(p, l)
    }
}

#[global_allocator]
static A: Counting = Counting;

// ------------------------------------------------------------------------------------------------
// input families (deterministic: index -> input)

const ALPHA: &[u8] = b"*$+:-12a\r\n";
const P: &str = "127.0.0.1:7000";
const N1: &str = "127.0.0.1:6000";

fn nth_string(mut idx: usize, maxlen: usize) -> Option<Vec<u8>> {
    // strings ordered by length, then lexicographically over ALPHA
    let k = ALPHA.len();
    let mut len = 0;
    let mut count = 1usize;
    loop {
        if idx < count {
            break;
        }
        idx -= count;
        len += 1;
        if len > maxlen {
            return None;
        }
        count *= k;
    }
    let mut s = vec![0u8; len];
    for i in (0..len).rev() {
        s[i] = ALPHA[idx % k];
        idx /= k;
    }
    Some(s)
}

fn bulk_cmd(parts: &[Vec<u8>]) -> Vec<u8> {
    let mut b = format!("*{}\r\n", parts.len()).into_bytes();
    for p in parts {
        b.extend_from_slice(format!("${}\r\n", p.len()).as_bytes());
        b.extend_from_slice(p);
        b.extend_from_slice(b"\r\n");
    }
    b
}

fn structured() -> Vec<(String, Vec<u8>)> {
    let mut v: Vec<(String, Vec<u8>)> = vec![];
    let lens = ["-9223372036854775808", "-2", "-1", "0", "1", "2147483648", "4294967296", "9223372036854775807", "9223372036854775808", "1000000000000000000000000000000", "1000000", "100000000"];
    for l in lens {
        v.push((format!("array length {}", l), format!("*{}\r\n", l).into_bytes()));
        v.push((format!("array length {} + one element", l), format!("*{}\r\n$1\r\na\r\n", l).into_bytes()));
        v.push((format!("bulk length {}", l), format!("${}\r\n", l).into_bytes()));
        v.push((format!("bulk length {} inside a command", l), format!("*2\r\n$3\r\nGET\r\n${}\r\n", l).into_bytes()));
        v.push((format!("nested array length {}", l), format!("*1\r\n*{}\r\n", l).into_bytes()));
    }
    for depth in [1usize, 2, 16, 1000, 100_000] {
        let mut b = vec![];
        for _ in 0..depth {
            b.extend_from_slice(b"*1\r\n");
        }
        v.push((format!("nesting depth {} (open)", depth), b.clone()));
        b.extend_from_slice(b"$1\r\na\r\n");
        v.push((format!("nesting depth {} (closed)", depth), b));
    }
    // long arguments made of multi-byte characters around the lengths at which the proxy cuts,
    // abbreviates or logs arguments (every offset of the first multi-byte character in 90..=130)
    for (cname, ch) in [("2-byte", "\u{e9}"), ("3-byte", "\u{4e2d}"), ("4-byte", "\u{1f600}")] {
        for lead in 90..=130usize {
            let arg = format!("{}{}", "a".repeat(lead), ch.repeat(8));
            v.push((format!("GET key of {} ascii bytes + {} chars", lead, cname), bulk_cmd(&[b"GET".to_vec(), arg.clone().into_bytes()])));
            if lead % 5 == 0 {
                v.push((format!("SET value of {} ascii bytes + {} chars", lead, cname), bulk_cmd(&[b"SET".to_vec(), b"k".to_vec(), arg.clone().into_bytes()])));
                v.push((format!("command name of {} ascii bytes + {} chars", lead, cname), bulk_cmd(&[arg.clone().into_bytes(), b"k".to_vec()])));
                v.push((format!("UMCTL sub-command of {} ascii bytes + {} chars", lead, cname), bulk_cmd(&[b"UMCTL".to_vec(), arg.clone().into_bytes()])));
            }
        }
    }
    // truncations of a valid command at every position
    let full = bulk_cmd(&[b"SET".to_vec(), b"key".to_vec(), b"value".to_vec()]);
    for i in 0..full.len() {
        v.push((format!("SET command truncated at {}", i), full[..i].to_vec()));
    }
    v
}

fn arg_values() -> Vec<Vec<u8>> {
    vec![
        b"".to_vec(),
        b"0".to_vec(),
        b"1".to_vec(),
        b"-1".to_vec(),
        b"18446744073709551615".to_vec(),
        b"9223372036854775807".to_vec(),
        b"9223372036854775808".to_vec(),
        vec![0xFF, 0xFE],
        vec![b'x'; 65536],
    ]
}

fn command_names() -> Vec<&'static str> {
    vec![
        "PING", "INFO", "AUTH", "QUIT", "ECHO", "SELECT", "UMCTL", "UMFORWARD", "UMSYNC", "CLUSTER", "CONFIG", "COMMAND", "ASKING", "HELLO", "NOSUCH",
        "APPEND", "BITCOUNT", "BITFIELD", "BITOP", "BITPOS", "DECR", "DECRBY", "GET", "GETBIT", "GETRANGE", "GETSET", "INCR", "INCRBY", "INCRBYFLOAT", "MGET", "MSET", "MSETNX", "PSETEX", "SET", "SETBIT", "SETEX", "SETNX",
        "SETRANGE", "STRLEN", "EVAL", "EVALSHA", "DEL", "EXISTS", "BLPOP", "BRPOP", "BRPOPLPUSH", "EXPIRE", "PEXPIRE", "HDEL", "LPOP", "RPOP", "RPOPLPUSH", "LREM", "LTRIM", "MOVE", "RENAME", "SPOP", "UNLINK", "ZPOPMAX", "BZPOPMAX", "BZPOPMIN", "ZREM",
    ]
}

fn sub_commands() -> Vec<(&'static str, &'static str)> {
    let mut v = vec![];
    for s in ["LISTCLUSTER", "SETCLUSTER", "SETREPL", "INFO", "INFOREPL", "INFOMGR", "PRECHECK", "PRESWITCH", "FINALSWITCH", "SLOWLOG", "DEBUG", "STATS", "GETEPOCH", "READY", "NOSUCH"] {
        v.push(("UMCTL", s));
    }
    for s in ["NODES", "SLOTS", "KEYSLOT", "NOSUCH"] {
        v.push(("CLUSTER", s));
    }
    for s in ["GET", "SET"] {
        v.push(("CONFIG", s));
    }
    v
}

fn control_family() -> Vec<(String, Vec<u8>)> {
    // well-formed control messages with extreme numbers at every numeric position
    let ext = ["16383", "16384", "65536", "4294967296", "9223372036854775807", "18446744073709551615", "0"];
    let mut v = vec![];
    let c = |parts: &[&str]| bulk_cmd(&parts.iter().map(|p| p.as_bytes().to_vec()).collect::<Vec<_>>());
    let mut epoch = 1000u64;
    for e in ext {
        for (label, node, peer) in [("local", N1, "127.0.0.2:7000"), ("peer", "127.0.0.2:7000", N1)] {
            epoch += 1;
            let ep = epoch.to_string();
            let r = format!("0-{}", e);
            let r2 = format!("{}-{}", e, e);
            if label == "local" {
                v.push((format!("SETCLUSTER local range 0-{}", e), c(&["UMCTL", "SETCLUSTER", "v2", &ep, "NOFLAG", "c1", node, "1", &r])));
                v.push((format!("SETCLUSTER local range {}-{}", e, e), c(&["UMCTL", "SETCLUSTER", "v2", &ep, "FORCE", "c1", node, "1", &r2])));
                v.push((format!("SETCLUSTER local range count {}", e), c(&["UMCTL", "SETCLUSTER", "v2", &ep, "FORCE", "c1", node, e, "0-1"])));
                v.push((format!("SETCLUSTER local migrating range 0-{}", e), c(&["UMCTL", "SETCLUSTER", "v2", &ep, "FORCE", "c1", node, "MIGRATING", "1", &r, "7", P, N1, "127.0.0.2:7000", "127.0.0.2:6000"])));
                v.push((format!("SETCLUSTER local importing range 0-{}", e), c(&["UMCTL", "SETCLUSTER", "v2", &ep, "FORCE", "c1", node, "IMPORTING", "1", &r, "7", "127.0.0.2:7000", "127.0.0.2:6000", P, N1])));
                v.push((format!("SETCLUSTER epoch {}", e), c(&["UMCTL", "SETCLUSTER", "v2", e, "NOFLAG", "c1", node, "1", "0-100"])));
            } else {
                v.push((format!("SETCLUSTER peer range 0-{}", e), c(&["UMCTL", "SETCLUSTER", "v2", &ep, "FORCE", "c1", peer, "1", "0-100", "PEER", node, "1", &r])));
                v.push((format!("SETCLUSTER peer migrating range 0-{}", e), c(&["UMCTL", "SETCLUSTER", "v2", &ep, "FORCE", "c1", peer, "1", "0-100", "PEER", node, "MIGRATING", "1", &r, "7", "127.0.0.2:7000", "127.0.0.2:6000", P, N1])));
            }
        }
        v.push((format!("SETREPL peer count {}", e), c(&["UMCTL", "SETREPL", "5", "FORCE", "master", "c1", N1, e])));
        v.push((format!("SETREPL epoch {}", e), c(&["UMCTL", "SETREPL", e, "NOFLAG", "master", "c1", N1, "0"])));
        v.push((format!("PRECHECK range 0-{}", e), c(&["UMCTL", "PRECHECK", "mgr_v2", "c1", "MIGRATING", "1", &format!("0-{}", e), "7", P, N1, "127.0.0.2:7000", "127.0.0.2:6000"])));
        v.push((format!("PRECHECK range count {}", e), c(&["UMCTL", "PRECHECK", "mgr_v2", "c1", "MIGRATING", e, "0-1", "7", P, N1, "127.0.0.2:7000", "127.0.0.2:6000"])));
        v.push((format!("EVAL numkeys {}", e), c(&["EVAL", "GETALL", e, "k1", "k2"])));
        v.push((format!("UMFORWARD times {}", e), c(&["UMFORWARD", e, "GET", "k1"])));
        v.push((format!("SLOWLOG GET {}", e), c(&["UMCTL", "SLOWLOG", "GET", e])));
        v.push((format!("BLPOP timeout {}", e), c(&["BLPOP", "k1", e])));
    }
    // client-settable configuration with extreme values, each followed (in the same pipeline) by a
    // request that exercises the setting, a slow-log dump, and the reset of the setting
    let long_key = format!("{}{}", "k".repeat(99), "\u{e9}".repeat(30));
    for (field, default) in [("slowlog_log_slower_than", "-1"), ("slowlog_sample_rate", "1")] {
        for val in ["0", "1", "-1", "-9223372036854775808", "9223372036854775807", "9223372036854775808", "18446744073709551615", "18446744073709551616", "abc", "", "1e3", " 1"] {
            let mut b = c(&["CONFIG", "SET", field, val]);
            b.extend(c(&["GET", &long_key]));
            b.extend(c(&["SET", &long_key, &long_key]));
            b.extend(c(&["UMCTL", "SLOWLOG", "GET", "18446744073709551615"]));
            b.extend(c(&["UMCTL", "SLOWLOG", "GET"]));
            b.extend(c(&["UMCTL", "SLOWLOG", "RESET"]));
            b.extend(c(&["CONFIG", "GET", field]));
            b.extend(c(&["CONFIG", "SET", field, default]));
            v.push((format!("CONFIG SET {} {:?} + traffic + SLOWLOG GET/RESET", field, val), b));
        }
    }
    for field in ["address", "announce_address", "announce_host", "slowlog_len", "thread_number", "backend_conn_num", "active_redirection", "max_redirections", "password", "nosuch", ""] {
        for val in ["0", "18446744073709551615", ""] {
            let mut b = c(&["CONFIG", "SET", field, val]);
            b.extend(c(&["CONFIG", "GET", field]));
            b.extend(c(&["GET", "k1"]));
            v.push((format!("CONFIG SET {} {:?} + CONFIG GET", field, val), b));
        }
    }
    v
}

fn nth_input(family: &str, idx: usize, thorough: bool) -> Option<(String, Vec<u8>)> {
    match family {
        "bytes" => nth_string(idx, if thorough { 7 } else { 5 }).map(|s| (format!("raw {:?}", String::from_utf8_lossy(&s)), s)),
        "structured" => structured().into_iter().nth(idx),
        "control" => control_family().into_iter().nth(idx),
        "commands" => {
            // name x up to k args over the value set
            let names = command_names();
            let vals = arg_values();
            let k = if thorough { 4 } else { 3 };
            let nv = vals.len();
            let mut per_name = 0usize;
            for a in 0..=k {
                per_name += nv.pow(a as u32);
            }
            let ni = idx / per_name;
            if ni >= names.len() {
                // sub-command families: (cmd, sub) x up to 2 args
                let rest = idx - names.len() * per_name;
                let subs = sub_commands();
                let per_sub = 1 + nv + nv * nv;
                let si = rest / per_sub;
                if si >= subs.len() {
                    return None;
                }
                let mut x = rest % per_sub;
                let mut parts = vec![subs[si].0.as_bytes().to_vec(), subs[si].1.as_bytes().to_vec()];
                if x >= 1 {
                    x -= 1;
                    if x < nv {
                        parts.push(vals[x].clone());
                    } else {
                        x -= nv;
                        parts.push(vals[x / nv].clone());
                        parts.push(vals[x % nv].clone());
                    }
                }
                let label = format!("{} {} + {} args", subs[si].0, subs[si].1, parts.len() - 2);
                return Some((label, bulk_cmd(&parts)));
            }
            let mut x = idx % per_name;
            let mut nargs = 0;
            loop {
                let c = nv.pow(nargs as u32);
                if x < c {
                    break;
                }
                x -= c;
                nargs += 1;
            }
            let mut parts = vec![names[ni].as_bytes().to_vec()];
            for _ in 0..nargs {
                parts.push(vals[x % nv].clone());
                x /= nv;
            }
            let label = format!("{} with {} args [{}]", names[ni], nargs, parts[1..].iter().map(|p| if p.len() > 24 { format!("<{}B>", p.len()) } else { String::from_utf8_lossy(p).to_string() }).collect::<Vec<_>>().join(","));
            Some((label, bulk_cmd(&parts)))
        }
        _ => None,
    }
}

// ------------------------------------------------------------------------------------------------
// child

async fn child_loop(family: String, start: usize, end: usize, stride: usize, thorough: bool, with_meta: bool) {
    let w = World::new();
    w.add_redis(N1);
    w.add_proxy(P, &ProxyOpts::default());
    if with_meta {
        let sc = cmd(&["UMCTL", "SETCLUSTER", "v2", "1", "NOFLAG", "c1", N1, "1", "0-8000", "PEER", "127.0.0.2:7000", "1", "8001-16383"]);
        let r = w.client(P, &sc).await;
        assert_eq!(show_resp(&r), "+OK");
    }
    let out = std::io::stdout();
    for idx in (start..end).step_by(stride.max(1)) {
        let (label, input) = match nth_input(&family, idx, thorough) {
            Some(x) => x,
            None => break,
        };
        {
            let mut o = out.lock();
            let _ = writeln!(o, "BEGIN {} {}", idx, input.len());
            let _ = o.flush();
        }
        // the harness' own event log must not grow inside the measured window (its doubling at
        // 65536 events is one 8 MiB allocation that would be charged to whatever input is running)
        w.0.st.lock().unwrap().log.clear();
        let live0 = LIVE.load(Ordering::Relaxed);
        PEAK.store(live0, Ordering::Relaxed);
        MAXREQ.store(0, Ordering::Relaxed);
        let t0 = Instant::now();
        let mut verdict = String::from("ok");
        let mut outcome = "incomplete";
        // decode like the session does
        let (encoder, decoder) = new_simple_packet_codec::<Box<RespPacket>, Box<RespPacket>>();
        let mut codec = RespCodec::new(encoder, decoder);
        let mut buf = BytesMut::from(&input[..]);
        let mut packets = vec![];
        let dec = std::panic::catch_unwind(std::panic::AssertUnwindSafe(|| loop {
            match codec.decode(&mut buf) {
                Ok(Some(p)) => packets.push(p),
                Ok(None) => return Ok(()),
                Err(_) => return Err(()),
            }
        }));
        match dec {
            Err(_) => verdict = "panic-in-decoder".into(),
            Ok(Err(())) => outcome = "closed",
            Ok(Ok(())) => {}
        }
        for p in packets {
            outcome = "replied";
            let proxy = w.0.st.lock().unwrap().proxies.get(P).cloned().unwrap();
            // the packet exactly as the session decoder produced it, through the real per-request
            // session path (Session::handle_cmd, ForwardHandler, slow log)
            let fut = std::panic::AssertUnwindSafe(proxy.handle_packet(p));
            let res = tokio::time::timeout(Duration::from_secs(100), futures::FutureExt::catch_unwind(fut)).await;
            match res {
                Err(_) => {
                    // still pending after 100 virtual seconds
                    let is_blocking_pop = label.starts_with("BLPOP") || label.starts_with("BRPOP") || label.starts_with("BZPOP") || label.starts_with("BRPOPLPUSH");
                    if !is_blocking_pop {
                        verdict = "no-reply-within-100-virtual-seconds".into();
                    }
                    outcome = "pending";
                }
                Ok(Err(_)) => verdict = "panic-in-handler".into(),
                Ok(Ok(_reply)) => {}
            }
        }
        let peak_extra = PEAK.load(Ordering::Relaxed).saturating_sub(live0);
        let maxreq = MAXREQ.load(Ordering::Relaxed);
        let ms = t0.elapsed().as_millis();
        // other connections are still served
        let ping = w.client(P, &cmd(&["PING"])).await;
        if show_resp(&ping) != "+OK" {
            verdict = "second-connection-not-served".into();
        }
        if verdict == "ok" && peak_extra > 64 * input.len() + (4 << 20) {
            verdict = "memory-not-bounded-by-input".into();
        }
        let mut o = out.lock();
        let _ = writeln!(o, "END {} {} {} {} {} {} {}", idx, verdict, outcome, peak_extra, maxreq, ms, label.replace('\n', " ").replace('\r', " "));
        let _ = o.flush();
    }
}

fn child_main(args: &[String]) {
    let family = args[0].clone();
    let start: usize = args[1].parse().unwrap();
    let end: usize = args[2].parse().unwrap();
    let thorough = args[3] == "1";
    let with_meta = args[4] == "1";
    let stride: usize = args.get(5).and_then(|s| s.parse().ok()).unwrap_or(1);
    std::panic::set_hook(Box::new(|_| {}));
    // the stack a production session task gets: tokio's default worker stack (2 MiB)
    let h = std::thread::Builder::new()
        .stack_size(2 << 20)
        .spawn(move || {
            vh::det::set_thread_seed(7);
            run_sim(child_loop(family, start, end, stride, thorough, with_meta));
        })
        .expect("spawn");
    let _ = h.join();
}

// ------------------------------------------------------------------------------------------------
// parent

#[derive(Default)]
struct FamilyResult {
    inputs: usize,
    outcomes: std::collections::BTreeMap<String, usize>,
    viol: Vec<Violation>,
    child_restarts: usize,
    max_peak: usize,
    max_ms: u128,
}

/// A timing verdict (wedged / slow) is only believed when it repeats with the input alone in a
/// fresh child and a ten times longer limit: a loaded machine must not produce an alarm.
fn confirm_stuck(exe: &std::path::Path, family: &str, idx: usize, thorough: bool, with_meta: bool) -> bool {
    let mut child = match PCommand::new(exe)
        .args(["--child", family, &idx.to_string(), &(idx + 1).to_string(), if thorough { "1" } else { "0" }, if with_meta { "1" } else { "0" }, "1"])
        .stdout(Stdio::piped())
        .stderr(Stdio::null())
        .spawn()
    {
        Ok(c) => c,
        Err(_) => return true,
    };
    let stdout = child.stdout.take().unwrap();
    let (tx, rx) = std::sync::mpsc::channel::<String>();
    std::thread::spawn(move || {
        for l in BufReader::new(stdout).lines().flatten() {
            if tx.send(l).is_err() {
                break;
            }
        }
    });
    let t0 = std::time::Instant::now();
    let mut stuck = true;
    while t0.elapsed() < Duration::from_secs(30) {
        match rx.recv_timeout(Duration::from_secs(1)) {
            Ok(l) if l.starts_with("END ") => {
                let ms: u128 = l.split(' ').nth(6).and_then(|s| s.parse().ok()).unwrap_or(0);
                stuck = ms > 20_000;
                break;
            }
            Ok(_) => {}
            Err(std::sync::mpsc::RecvTimeoutError::Timeout) => {}
            Err(std::sync::mpsc::RecvTimeoutError::Disconnected) => break,
        }
    }
    let _ = child.kill();
    let _ = child.wait();
    stuck
}

fn run_family(family: &str, thorough: bool, with_meta: bool, total: usize, workers: usize) -> FamilyResult {
    let exe = std::env::current_exe().expect("exe");
    let mut hs = vec![];
    for wi in 0..workers {
        let (exe, family) = (exe.clone(), family.to_string());
        // interleaved assignment: inputs that wedge come in runs, spread them over the workers
        let lo = wi;
        let hi = total;
        if lo >= hi {
            continue;
        }
        hs.push(std::thread::spawn(move || {
            let mut res = FamilyResult::default();
            let mut next = lo;
            while next < hi {
                let mut child = PCommand::new(&exe)
                    .args(["--child", &family, &next.to_string(), &hi.to_string(), if thorough { "1" } else { "0" }, if with_meta { "1" } else { "0" }, &workers.to_string()])
                    .stdout(Stdio::piped())
                    .stderr(Stdio::null())
                    .spawn()
                    .expect("spawn child");
                let stdout = child.stdout.take().unwrap();
                let (tx, rx) = std::sync::mpsc::channel::<String>();
                let reader = std::thread::spawn(move || {
                    for l in BufReader::new(stdout).lines().flatten() {
                        if tx.send(l).is_err() {
                            break;
                        }
                    }
                });
                let mut current: Option<usize> = None;
                let mut died = false;
                loop {
                    match rx.recv_timeout(Duration::from_secs(if current.is_some() { 3 } else { 30 })) {
                        Ok(l) => {
                            let mut it = l.splitn(8, ' ');
                            match it.next() {
                                Some("BEGIN") => current = it.next().and_then(|s| s.parse().ok()),
                                Some("END") => {
                                    let idx: usize = it.next().and_then(|s| s.parse().ok()).unwrap_or(0);
                                    let verdict = it.next().unwrap_or("").to_string();
                                    let outcome = it.next().unwrap_or("").to_string();
                                    let peak: usize = it.next().and_then(|s| s.parse().ok()).unwrap_or(0);
                                    let maxreq: usize = it.next().and_then(|s| s.parse().ok()).unwrap_or(0);
                                    let ms: u128 = it.next().and_then(|s| s.parse().ok()).unwrap_or(0);
                                    let label = it.next().unwrap_or("").to_string();
                                    res.inputs += 1;
                                    res.max_peak = res.max_peak.max(peak);
                                    res.max_ms = res.max_ms.max(ms);
                                    *res.outcomes.entry(outcome).or_default() += 1;
                                    let mut v = verdict.clone();
                                    if v == "ok" && ms > 2000 && confirm_stuck(&exe, &family, idx, thorough, with_meta) {
                                        v = "slow-request".into();
                                    }
                                    if v != "ok" {
                                        res.viol.push(Violation {
                                            key: format!("{}:{}:{}", family, v, classify(&label)),
                                            desc: format!("input #{} ({}): {} (peak extra bytes {}, largest allocation {}, {} ms)", idx, label, v, peak, maxreq, ms),
                                            replay: json!({"family": family, "index": idx, "with_meta": with_meta, "thorough": thorough}),
                                        });
                                    }
                                    current = None;
                                    next = idx + workers;
                                }
                                _ => {}
                            }
                        }
                        Err(std::sync::mpsc::RecvTimeoutError::Timeout) => {
                            let _ = child.kill();
                            if let Some(idx) = current {
                                let label = nth_input(&family, idx, thorough).map(|x| x.0).unwrap_or_default();
                                res.inputs += 1;
                                if !confirm_stuck(&exe, &family, idx, thorough, with_meta) {
                                    *res.outcomes.entry("slow-under-load-but-completes-alone".into()).or_default() += 1;
                                    next = idx + workers;
                                    died = true;
                                    break;
                                }
                                res.viol.push(Violation {
                                    key: format!("{}:wedged:{}", family, classify(&label)),
                                    desc: format!("input #{} ({}): no completion within 3 s of wall time; the proxy thread is stuck", idx, label),
                                    replay: json!({"family": family, "index": idx, "with_meta": with_meta, "thorough": thorough}),
                                });
                                next = idx + workers;
                            }
                            died = true;
                            break;
                        }
                        Err(std::sync::mpsc::RecvTimeoutError::Disconnected) => {
                            let st = child.wait().ok();
                            if let Some(idx) = current {
                                let label = nth_input(&family, idx, thorough).map(|x| x.0).unwrap_or_default();
                                res.inputs += 1;
                                res.viol.push(Violation {
                                    key: format!("{}:process-died:{}", family, classify(&label)),
                                    desc: format!("input #{} ({}): the process died ({:?})", idx, label, st),
                                    replay: json!({"family": family, "index": idx, "with_meta": with_meta, "thorough": thorough}),
                                });
                                next = idx + workers;
                                died = true;
                            } else {
                                next = hi; // finished normally
                            }
                            break;
                        }
                    }
                }
                let _ = child.wait();
                let _ = reader.join();
                if died {
                    res.child_restarts += 1;
                }
            }
            res
        }));
    }
    let mut total_r = FamilyResult::default();
    for h in hs {
        let r = h.join().expect("worker");
        total_r.inputs += r.inputs;
        total_r.child_restarts += r.child_restarts;
        total_r.max_peak = total_r.max_peak.max(r.max_peak);
        total_r.max_ms = total_r.max_ms.max(r.max_ms);
        for (k, v) in r.outcomes {
            *total_r.outcomes.entry(k).or_default() += v;
        }
        total_r.viol.extend(r.viol);
    }
    total_r
}

/// Stable class of an input label (numbers that only enumerate are kept, payload text is not).
fn classify(label: &str) -> String {
    if label.starts_with("raw ") {
        return "raw-bytes".into();
    }
    if label.starts_with("SET command truncated") {
        return "truncated-command".into();
    }
    label.split(" [").next().unwrap_or(label).to_string()
}

fn count(family: &str, thorough: bool) -> usize {
    let mut n = 0;
    // families are finite; find the size by probing
    let mut step = 1usize << 20;
    while nth_input(family, n + step, thorough).is_some() {
        n += step;
    }
    while step > 0 {
        if nth_input(family, n + step, thorough).is_some() {
            n += step;
        } else {
            step /= 2;
        }
    }
    n + 1
}

fn main() {
    let args: Vec<String> = std::env::args().collect();
    if args.len() > 1 && args[1] == "--child" {
        child_main(&args[2..]);
        return;
    }
    let cli = Cli::parse();
    let mut rep = Report::new(&cli, "model_checking");
    rep.assumptions = vec![
        "resource bounds are measured with fixed constants (peak extra bytes <= 64*len + 4 MiB, allocations above 1 GiB refused, 2 s / 4 s wall watchdog, 100 virtual seconds for a reply); they are evidence for the explored families, not a proof for all lengths".into(),
        "decoding and handling run on a 2 MiB stack (tokio worker default) inside a child process; the backend is the in-harness Redis stand-in".into(),
    ];
    let thorough = cli.level() >= 1;
    if let Some(path) = &cli.replay {
        let body: Value = serde_json::from_str(&std::fs::read_to_string(path).expect("replay")).expect("json");
        let r = &body["replay"];
        let fam = r["family"].as_str().unwrap_or("bytes").to_string();
        let idx = r["index"].as_u64().unwrap_or(0) as usize;
        let res = run_family_range(&fam, r["thorough"].as_bool().unwrap_or(false), r["with_meta"].as_bool().unwrap_or(false), idx, idx + 1);
        for v in &res.viol {
            println!("replay: {} {}", v.key, v.desc);
        }
        if res.viol.is_empty() {
            println!("replay: input handled fine");
            std::process::exit(0);
        }
        println!("VIOLATION property=C16 replay={}", path);
        std::process::exit(1);
    }
    let mut viol: Vec<Violation> = vec![];
    let mut per = vec![];
    let mut total_inputs = 0;
    let mut samples = vec![];
    for (family, metas) in [("structured", vec![false, true]), ("control", vec![true]), ("commands", vec![false, true]), ("bytes", vec![true])] {
        let n = count(family, thorough);
        for with_meta in metas {
            let t = Instant::now();
            let r = run_family(family, thorough, with_meta, n, 16);
            eprintln!("[C16] family {} (metadata {}) inputs {} restarts {} max peak {} B max {} ms ({:.1}s)", family, with_meta, r.inputs, r.child_restarts, r.max_peak, r.max_ms, t.elapsed().as_secs_f64());
            total_inputs += r.inputs;
            per.push(json!({"family": family, "metadata_installed": with_meta, "inputs": r.inputs, "outcomes": r.outcomes, "child_restarts": r.child_restarts, "max_peak_extra_bytes": r.max_peak, "max_ms": r.max_ms as u64}));
            for v in r.viol {
                if viol.iter().filter(|x| x.key == v.key).count() < 1 {
                    viol.push(v);
                }
            }
        }
        if let Some((l, i)) = nth_input(family, n / 2, thorough) {
            samples.push(json!({"family": family, "label": l, "bytes": String::from_utf8_lossy(&i[..i.len().min(80)])}));
        }
    }
    let cov = json!({
        "evaluations": total_inputs,
        "distinct_nontrivial": total_inputs,
        "rule": "families: (bytes) every byte string up to the length bound over '*$+:-12a\\r\\n'; (structured) hostile length prefixes at array/bulk position, nesting depths 1..10^5, every truncation of a command; (commands) every command name of the proxy's tables x 0..3 (thorough 4) arguments over 9 extreme values, sub-command families x 0..2 arguments; (control) well-formed UMCTL SETCLUSTER/SETREPL/PRECHECK, EVAL, UMFORWARD, SLOWLOG, BLPOP with extreme numbers at every numeric position; all inputs of a family are distinct by construction",
        "states": total_inputs,
        "transitions": total_inputs,
        "traces_validated_against_impl": total_inputs,
        "families": per,
        "samples": samples,
        "exhaustive": true,
    });
    std::process::exit(rep.finish(cov, viol));
}

fn run_family_range(family: &str, thorough: bool, with_meta: bool, lo: usize, hi: usize) -> FamilyResult {
    // single worker over [lo, hi)
    let total = hi;
    let mut r = FamilyResult::default();
    let exe = std::env::current_exe().expect("exe");
    let out = PCommand::new(&exe)
        .args(["--child", family, &lo.to_string(), &total.to_string(), if thorough { "1" } else { "0" }, if with_meta { "1" } else { "0" }])
        .stdout(Stdio::piped())
        .stderr(Stdio::null())
        .output();
    match out {
        Ok(o) => {
            let s = String::from_utf8_lossy(&o.stdout).to_string();
            let ended = s.lines().any(|l| l.starts_with("END") && l.split(' ').nth(2) == Some("ok"));
            if !ended {
                r.viol.push(Violation { key: format!("{}:replayed", family), desc: format!("child output: {} status {:?}", s.lines().last().unwrap_or(""), o.status), replay: json!({}) });
            }
        }
        Err(e) => r.viol.push(Violation { key: "spawn".into(), desc: e.to_string(), replay: json!({}) }),
    }
    r
}
