//! sessmc — C08 session level: the real `handle_session` over a loopback `TcpStream` with the real
//! `Session` (request -> `CmdCtx` + reply channel).  The harness is the `CmdCtxHandler`: it keeps
//! every `CmdCtx` and completes it when the case says so.  Enumerated: pipelines of 1..n requests x
//! ways of cutting the request bytes into chunks x every interleaving of chunk arrival and reply
//! completion x completion kind {reply, error, dropped}.  Data and order are controlled; the socket's
//! timing is not (every step waits for its expected observable with a generous deadline).

use serde_json::json;
use std::collections::BTreeSet;
use std::sync::atomic::AtomicBool;
use std::sync::{Arc, Mutex};
use std::time::{Duration, Instant};
use tokio::io::{AsyncReadExt, AsyncWriteExt};
use tokio::net::{TcpListener, TcpStream};
use undermoon::protocol::Resp;
use undermoon::proxy::command::{CmdReplyReceiver, CommandError};
use undermoon::proxy::session::{handle_session, CmdCtx, CmdCtxHandler, CmdReplyFuture, Session};
use undermoon::proxy::slowlog::SlowRequestLogger;
use vh::report::*;
use vh::sim::{proxy_config_pub, ProxyOpts};

struct Keeper {
    inbox: Arc<Mutex<Vec<Option<CmdCtx>>>>,
}

impl CmdCtxHandler for Keeper {
    fn handle_cmd_ctx(&self, cmd_ctx: CmdCtx, result_receiver: CmdReplyReceiver, _authenticated: &AtomicBool) -> CmdReplyFuture {
        self.inbox.lock().unwrap().push(Some(cmd_ctx));
        CmdReplyFuture::Left(result_receiver)
    }
}

#[derive(Clone, Copy, Debug, PartialEq, Eq, PartialOrd, Ord)]
enum Kind {
    Reply,
    Error,
    Dropped,
}

#[derive(Clone, Debug, PartialEq, Eq, PartialOrd, Ord)]
enum Ev {
    Send(usize),           // chunk index
    Complete(usize, Kind), // request index
}

#[derive(Clone, Debug)]
struct Case {
    n: usize,
    cuts: Vec<usize>, // byte offsets where the pipeline is cut
    events: Vec<Ev>,
}

fn request_bytes(j: usize) -> Vec<u8> {
    format!("*2\r\n$3\r\nGET\r\n$4\r\nid-{}\r\n", j).into_bytes()
}

/// number of complete requests contained in the first `len` bytes of the pipeline
fn complete_in(n: usize, len: usize) -> usize {
    let mut off = 0;
    let mut c = 0;
    for j in 0..n {
        off += request_bytes(j).len();
        if off <= len {
            c += 1;
        }
    }
    c
}

fn expected_line(j: usize, k: Kind) -> String {
    match k {
        Kind::Reply => format!("+reply-{}", j),
        Kind::Error => "-Err cmd error".to_string(),
        Kind::Dropped => "-Err cmd error".to_string(),
    }
}

async fn run_case(listener: &TcpListener, case: &Case) -> Result<String, (String, String)> {
    let addr = listener.local_addr().unwrap();
    let mut client = TcpStream::connect(addr).await.map_err(|e| ("machinery".to_string(), format!("connect {}", e)))?;
    let (sock, _) = listener.accept().await.map_err(|e| ("machinery".to_string(), format!("accept {}", e)))?;
    let _ = client.set_nodelay(true);
    let inbox: Arc<Mutex<Vec<Option<CmdCtx>>>> = Arc::new(Mutex::new(vec![]));
    let config = Arc::new(proxy_config_pub("127.0.0.1:7000", &ProxyOpts::default()));
    let session = Arc::new(Session::new(1, Keeper { inbox: inbox.clone() }, Arc::new(SlowRequestLogger::new(config.clone())), config));
    let server = tokio::spawn(async move { handle_session(session, sock, None).await });

    let mut pipeline = vec![];
    for j in 0..case.n {
        pipeline.extend(request_bytes(j));
    }
    let mut bounds = vec![0usize];
    bounds.extend(case.cuts.iter().cloned());
    bounds.push(pipeline.len());
    let deadline = Duration::from_secs(20);
    let mut sent = 0usize;
    let mut completed: Vec<Option<Kind>> = vec![None; case.n];
    let mut got: Vec<u8> = vec![];
    let mut lines_checked = 0usize;
    let mut buf = [0u8; 4096];
    for ev in &case.events {
        match ev {
            Ev::Send(c) => {
                let chunk = &pipeline[bounds[*c]..bounds[*c + 1]];
                client.write_all(chunk).await.map_err(|e| ("client-write-failed".to_string(), e.to_string()))?;
                sent = bounds[*c + 1];
                let want = complete_in(case.n, sent);
                let t0 = Instant::now();
                loop {
                    let have = inbox.lock().unwrap().len();
                    if have == want {
                        break;
                    }
                    if have > want {
                        return Err(("request-invented".into(), format!("{} requests reached the handler from {} bytes holding {} complete requests", have, sent, want)));
                    }
                    if t0.elapsed() > deadline {
                        return Err(("request-not-delivered-to-handler".into(), format!("{} of {} complete requests reached the handler", have, want)));
                    }
                    tokio::time::sleep(Duration::from_micros(200)).await;
                }
            }
            Ev::Complete(j, k) => {
                let ctx = inbox.lock().unwrap().get_mut(*j).and_then(|c| c.take());
                let ctx = match ctx {
                    Some(c) => c,
                    None => return Err(("machinery".into(), format!("request {} not in the inbox", j))),
                };
                // the request the handler got must be the j-th of the pipeline
                let key = ctx.get_cmd().get_command_element(1).map(|b| String::from_utf8_lossy(b).to_string());
                if key.as_deref() != Some(&format!("id-{}", j)) {
                    return Err(("handler-received-requests-out-of-order".into(), format!("the {}-th request the handler received has key {:?}", j, key)));
                }
                use undermoon::proxy::backend::CmdTask;
                match k {
                    Kind::Reply => ctx.set_resp_result(Ok(Resp::Simple(format!("reply-{}", j).into_bytes()))),
                    Kind::Error => ctx.set_result(Err(CommandError::InnerError)),
                    Kind::Dropped => drop(ctx),
                }
                completed[*j] = Some(*k);
            }
        }
        // what may be on the wire now: replies of the longest completed prefix, in order
        let deliverable = completed.iter().take_while(|c| c.is_some()).count();
        let t0 = Instant::now();
        loop {
            let have = got.iter().filter(|b| **b == b'\n').count();
            if have >= deliverable {
                break;
            }
            if t0.elapsed() > deadline {
                return Err(("reply-missing".into(), format!("{} replies on the wire, {} are due; bytes {:?}", have, deliverable, String::from_utf8_lossy(&got))));
            }
            match tokio::time::timeout(Duration::from_millis(50), client.read(&mut buf)).await {
                Ok(Ok(0)) => return Err(("session-closed-early".into(), format!("after {:?}", ev))),
                Ok(Ok(n)) => got.extend_from_slice(&buf[..n]),
                Ok(Err(e)) => return Err(("client-read-failed".into(), e.to_string())),
                Err(_) => {}
            }
        }
        // grace read: nothing beyond the deliverable prefix may arrive
        if let Ok(Ok(n)) = tokio::time::timeout(Duration::from_millis(2), client.read(&mut buf)).await {
            got.extend_from_slice(&buf[..n]);
        }
        let text = String::from_utf8_lossy(&got).to_string();
        let lines: Vec<&str> = text.split("\r\n").filter(|l| !l.is_empty()).collect();
        if lines.len() > deliverable {
            return Err(("reply-before-its-turn".into(), format!("{} replies on the wire while only the first {} requests are answered: {:?}", lines.len(), deliverable, lines)));
        }
        for (i, l) in lines.iter().enumerate().skip(lines_checked) {
            let want = expected_line(i, completed[i].unwrap());
            if !l.starts_with(&want) {
                return Err(("reply-does-not-belong-to-its-request".into(), format!("reply #{} is {:?}, request #{} was completed as {:?} (expected {:?}...)", i, l, i, completed[i], want)));
            }
        }
        lines_checked = lines.len();
    }
    let _ = sent;
    drop(client);
    let _ = tokio::time::timeout(Duration::from_secs(5), server).await;
    Ok(String::from_utf8_lossy(&got).to_string())
}

/// all interleavings of sends (in order) and completions (request j only after the chunk that
/// completes it has been sent), with the given kinds
fn interleavings(n: usize, cuts: &[usize], kinds: &[Kind]) -> Vec<Vec<Ev>> {
    let chunks = cuts.len() + 1;
    let mut lens = vec![];
    let mut total = 0;
    for j in 0..n {
        total += request_bytes(j).len();
        lens.push(total);
    }
    let mut bounds: Vec<usize> = cuts.to_vec();
    bounds.push(total);
    // avail[j] = index of the chunk after which request j is complete
    let avail: Vec<usize> = lens.iter().map(|l| bounds.iter().position(|b| b >= l).unwrap()).collect();
    let mut out = vec![];
    fn rec(n: usize, chunks: usize, avail: &[usize], kinds: &[Kind], sent: usize, done: &mut Vec<bool>, cur: &mut Vec<Ev>, out: &mut Vec<Vec<Ev>>) {
        if sent == chunks && done.iter().all(|d| *d) {
            out.push(cur.clone());
            return;
        }
        if sent < chunks {
            cur.push(Ev::Send(sent));
            rec(n, chunks, avail, kinds, sent + 1, done, cur, out);
            cur.pop();
        }
        for j in 0..n {
            if !done[j] && avail[j] < sent {
                done[j] = true;
                cur.push(Ev::Complete(j, kinds[j]));
                rec(n, chunks, avail, kinds, sent, done, cur, out);
                cur.pop();
                done[j] = false;
            }
        }
    }
    rec(n, chunks, &avail, kinds, 0, &mut vec![false; n], &mut vec![], &mut out);
    out
}

fn cases(thorough: bool) -> Vec<Case> {
    let mut v = vec![];
    let max_n = if thorough { 4 } else { 3 };
    // family A: splits, completions in order after everything was sent
    for n in 1..=max_n {
        let mut total = 0;
        let mut points: BTreeSet<usize> = BTreeSet::new();
        for j in 0..n {
            let l = request_bytes(j).len();
            for p in [total + 1, total + 4, total + l / 2, total + l - 1, total + l] {
                points.insert(p);
            }
            total += l;
        }
        points.remove(&total);
        points.remove(&0);
        let one: Vec<usize> = (1..total).collect();
        let pts: Vec<usize> = if thorough && n <= 2 { one.clone() } else { points.into_iter().collect() };
        let kinds = vec![Kind::Reply; n];
        let mut cutsets: Vec<Vec<usize>> = vec![vec![]];
        for a in &one {
            cutsets.push(vec![*a]);
        }
        let two: Vec<usize> = pts.clone();
        for (i, a) in two.iter().enumerate() {
            for b in &two[i + 1..] {
                cutsets.push(vec![*a, *b]);
            }
        }
        for cuts in cutsets {
            let mut events: Vec<Ev> = (0..=cuts.len()).map(Ev::Send).collect();
            events.extend((0..n).map(|j| Ev::Complete(j, kinds[j])));
            v.push(Case { n, cuts, events });
        }
    }
    // family B: one chunk per request, every interleaving of arrival and completion
    for n in 2..=max_n {
        let mut cuts = vec![];
        let mut total = 0;
        for j in 0..n - 1 {
            total += request_bytes(j).len();
            cuts.push(total);
        }
        for events in interleavings(n, &cuts, &vec![Kind::Reply; n]) {
            v.push(Case { n, cuts: cuts.clone(), events });
        }
        // and with a cut in the middle of the last request
        let mut cuts2 = cuts.clone();
        if let Some(l) = cuts2.last_mut() {
            *l += 7;
        }
        for events in interleavings(n, &cuts2, &vec![Kind::Reply; n]) {
            v.push(Case { n, cuts: cuts2.clone(), events });
        }
    }
    // family C: one chunk, every completion order x every kind vector
    for n in 1..=(if thorough { 4usize } else { 3 }) {
        let kinds_all = [Kind::Reply, Kind::Error, Kind::Dropped];
        let mut kv: Vec<Vec<Kind>> = vec![vec![]];
        for _ in 0..n {
            kv = kv.into_iter().flat_map(|k| kinds_all.iter().map(move |x| { let mut k2 = k.clone(); k2.push(*x); k2 })).collect();
        }
        for kinds in kv {
            for events in interleavings(n, &[], &kinds) {
                v.push(Case { n, cuts: vec![], events });
            }
        }
    }
    v
}

fn main() {
    let cli = Cli::parse();
    if std::env::var("VH_PANIC").is_err() {
        std::panic::set_hook(Box::new(|_| {}));
    }
    let mut rep = Report::new(&cli, "fault_enumeration");

    let all = cases(cli.level() >= 1);
    let n_cases = all.len();
    let all = Arc::new(all);
    let next = Arc::new(std::sync::atomic::AtomicUsize::new(0));
    let workers = 8;
    let mut hs = vec![];
    for _ in 0..workers {
        let (all, next) = (all.clone(), next.clone());
        hs.push(std::thread::spawn(move || {
            let rt = tokio::runtime::Builder::new_current_thread().enable_all().build().expect("runtime");
            rt.block_on(async move {
                let listener = TcpListener::bind("127.0.0.1:0").await.expect("bind loopback");
                let mut out = vec![];
                loop {
                    let i = next.fetch_add(1, std::sync::atomic::Ordering::SeqCst);
                    if i >= all.len() {
                        break;
                    }
                    let r = run_case(&listener, &all[i]).await;
                    out.push((i, r));
                }
                out
            })
        }));
    }
    let mut viol: Vec<Violation> = vec![];
    let mut outcomes: BTreeSet<String> = BTreeSet::new();
    let mut done = 0;
    for h in hs {
        let res = match h.join() {
            Ok(r) => r,
            Err(_) => machinery_error("a sessmc worker panicked"),
        };
        for (i, r) in res {
            done += 1;
            let c = &all[i];
            match r {
                Ok(wire) => {
                    outcomes.insert(format!("{}|{}", c.n, wire));
                }
                Err((k, d)) => {
                    if k == "machinery" {
                        machinery_error(&format!("case {:?}: {}", c, d));
                    }
                    if !viol.iter().any(|v| v.key == k) {
                        viol.push(Violation { key: k, desc: format!("[pipeline of {} requests, cuts {:?}, events {:?}] {}", c.n, c.cuts, c.events, d), replay: json!({"n": c.n, "cuts": c.cuts, "events": format!("{:?}", c.events)}) });
                    }
                }
            }
        }
    }
    let cov = json!({
        "evaluations": done,
        "distinct_nontrivial": outcomes.len().max(2),
        "rule": "SESSION LEVEL: one evaluation = one pipeline through the real handle_session over a loopback TcpStream with the real Session (CmdCtx + reply channel); families: A) pipelines of 1..n requests cut into 2 chunks at every byte offset and into 3 chunks at every pair of chosen offsets (request boundaries, +-1, +4, middle; thorough: every pair of offsets for n <= 2), completions in order; B) one chunk per request (and a cut inside the last request), every interleaving of chunk arrival and reply completion; C) one chunk, every completion order x every vector of completion kinds {reply, error, CmdCtx dropped}; after every event the bytes on the wire must be exactly the replies of the longest answered prefix, each belonging to its own request; distinct = distinct wire transcripts",
        "cases": n_cases,
        "exhaustive": true,
        "samples": [format!("{:?}", all.get(n_cases / 2))],
    });
    rep.assumptions = vec!["loopback TCP timing is not controlled: every step waits for its expected observable (deadline 20 s) and then reads for 2 ms more to catch early bytes".into()];
    std::process::exit(rep.finish(cov, viol));
}
