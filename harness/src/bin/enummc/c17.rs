//! C17 — control-plane wire encodings: round trips and "no silent misparse" under token mutations.
//!
//! For each of the three token-level encodings (plain `UMCTL SETCLUSTER`, `UMCTL SETREPL`,
//! migration-task descriptor) the harness has a strict reference parser written from the
//! documented format.  Every generated value is encoded by the real encoder; the encoding and
//! every single-token mutation of it is parsed by both: reference *invalid* => the real parser
//! must reject; reference *valid(w)* => the real parser must return a value equal to `w`.

use serde_json::{json, Value};
use std::collections::{BTreeMap, HashMap};
use std::convert::TryFrom;
use undermoon::common::cluster::{
    ClusterName, MigrationMeta, MigrationTaskMeta, Range, RangeList, ReplPeer, SlotRange, SlotRangeTag,
};
use undermoon::common::config::{ClusterConfig, CompressionStrategy};
use undermoon::common::proto::{ClusterMapFlags, ProxyClusterMeta};
use undermoon::protocol::{Array, BulkStr, Resp, RespVec};
use undermoon::replication::replicator::{encode_repl_meta, MasterMeta, ReplicaMeta, ReplicatorMeta};
use vh::report::*;

type Tok = Vec<u8>;

fn s2t(v: &[String]) -> Vec<Tok> {
    v.iter().map(|s| s.clone().into_bytes()).collect()
}

fn resp_of(prefix: &[&str], toks: &[Tok]) -> RespVec {
    let mut els: Vec<RespVec> = prefix.iter().map(|p| Resp::Bulk(BulkStr::Str(p.as_bytes().to_vec()))).collect();
    for t in toks {
        els.push(Resp::Bulk(BulkStr::Str(t.clone())));
    }
    Resp::Arr(Array::Arr(els))
}

// ---------------------------------------------------------------------------------------------
// strict reference parsers.  Values are compared in a canonical, order-free form.

#[derive(Debug, Clone, PartialEq, Eq, PartialOrd, Ord)]
struct CSlotRange {
    slots: Vec<(usize, usize)>, // compacted
    tag: u8,                    // 0 none 1 migrating 2 importing
    meta: Option<(u64, String, String, String, String)>,
}

#[derive(Debug, Clone, PartialEq, Eq)]
struct CClusterMeta {
    epoch: u64,
    force: bool,
    compress: bool,
    name: String,
    local: BTreeMap<String, Vec<CSlotRange>>,
    peer: BTreeMap<String, Vec<CSlotRange>>,
    config: Option<(String, u64, u64, u64, u64)>, // None = config part rejected
}

fn compact(mut v: Vec<(usize, usize)>) -> Vec<(usize, usize)> {
    for r in v.iter_mut() {
        if r.0 > r.1 {
            *r = (r.1, r.0);
        }
    }
    v.sort();
    let mut out: Vec<(usize, usize)> = vec![];
    for r in v {
        if let Some(l) = out.last_mut() {
            if l.1 + 1 >= r.0 {
                l.1 = l.1.max(r.1);
                continue;
            }
        }
        out.push(r);
    }
    out
}

fn c_slot_range(s: &SlotRange) -> CSlotRange {
    let slots = compact(s.get_range_list().get_ranges().iter().map(|r| (r.start(), r.end())).collect());
    let (tag, meta) = match &s.tag {
        SlotRangeTag::None => (0, None),
        SlotRangeTag::Migrating(m) => (1, Some(m)),
        SlotRangeTag::Importing(m) => (2, Some(m)),
    };
    CSlotRange {
        slots,
        tag,
        meta: meta.map(|m| (m.epoch, m.src_proxy_address.clone(), m.src_node_address.clone(), m.dst_proxy_address.clone(), m.dst_node_address.clone())),
    }
}

fn c_map(m: &HashMap<String, Vec<SlotRange>>, keep_empty: bool) -> BTreeMap<String, Vec<CSlotRange>> {
    let mut out = BTreeMap::new();
    for (k, v) in m {
        if v.is_empty() && !keep_empty {
            continue;
        }
        let mut c: Vec<CSlotRange> = v.iter().map(c_slot_range).collect();
        c.sort();
        out.insert(k.clone(), c);
    }
    out
}

fn c_config(c: &ClusterConfig) -> (String, u64, u64, u64, u64) {
    (
        c.compression_strategy.to_str().to_string(),
        c.migration_config.max_migration_time,
        c.migration_config.max_blocking_time,
        c.migration_config.scan_interval,
        c.migration_config.scan_count,
    )
}

fn c_cluster_meta(m: &ProxyClusterMeta, config_ok: bool, keep_empty: bool) -> CClusterMeta {
    CClusterMeta {
        epoch: m.get_epoch(),
        force: m.get_flags().force,
        compress: m.get_flags().compress,
        name: m.get_cluster_name().to_string(),
        local: c_map(m.get_local(), keep_empty),
        peer: c_map(m.get_peer(), keep_empty),
        config: if config_ok { Some(c_config(m.get_config())) } else { None },
    }
}

struct Cur<'a> {
    t: &'a [Tok],
    i: usize,
}

impl<'a> Cur<'a> {
    fn peek(&self) -> Option<&'a str> {
        self.t.get(self.i).and_then(|b| std::str::from_utf8(b).ok())
    }
    fn next(&mut self) -> Result<&'a str, &'static str> {
        let r = self.t.get(self.i).ok_or("truncated")?;
        self.i += 1;
        std::str::from_utf8(r).map_err(|_| "non-utf8-token")
    }
    fn done(&self) -> bool {
        self.i >= self.t.len()
    }
}

fn strict_u64(s: &str) -> Result<u64, &'static str> {
    // decimal digits; a leading '+' yields the intended value and is tolerated
    let d = s.strip_prefix('+').unwrap_or(s);
    if d.is_empty() || !d.bytes().all(|c| c.is_ascii_digit()) {
        return Err("bad-number");
    }
    d.parse::<u64>().map_err(|_| "number-overflow")
}

fn ref_flags(s: &str) -> Result<(bool, bool), &'static str> {
    // unknown flags are ignored by design (forward compatibility): NOFLAG is just an unknown flag
    let mut force = false;
    let mut compress = false;
    for f in s.split(',') {
        if f.eq_ignore_ascii_case("FORCE") {
            force = true;
        } else if f.eq_ignore_ascii_case("COMPRESS") {
            compress = true;
        }
    }
    Ok((force, compress))
}

fn ref_slot_range(c: &mut Cur) -> Result<CSlotRange, &'static str> {
    let first = c.peek().ok_or(if c.done() { "truncated" } else { "non-utf8-token" })?;
    let tag = if first.eq_ignore_ascii_case("MIGRATING") {
        1
    } else if first.eq_ignore_ascii_case("IMPORTING") {
        2
    } else {
        0
    };
    if tag != 0 {
        c.next()?;
    }
    let n = strict_u64(c.next()?)? as usize;
    if n > 16384 {
        return Err("bad-number");
    }
    let mut slots = vec![];
    for _ in 0..n {
        let r = c.next()?;
        let parts: Vec<&str> = r.split('-').collect();
        if parts.len() != 2 {
            return Err(if parts.len() > 2 { "range-with-extra-dash" } else { "bad-range" });
        }
        let a = strict_u64(parts[0])? as usize;
        let b = strict_u64(parts[1])? as usize;
        slots.push((a, b));
    }
    let meta = if tag != 0 {
        let e = strict_u64(c.next()?)?;
        Some((e, c.next()?.to_string(), c.next()?.to_string(), c.next()?.to_string(), c.next()?.to_string()))
    } else {
        None
    };
    Ok(CSlotRange { slots: compact(slots), tag, meta })
}

fn is_section(s: &str) -> bool {
    s.eq_ignore_ascii_case("PEER") || s.eq_ignore_ascii_case("CONFIG")
}

fn ref_node_map(c: &mut Cur) -> Result<BTreeMap<String, Vec<CSlotRange>>, &'static str> {
    let mut m: BTreeMap<String, Vec<CSlotRange>> = BTreeMap::new();
    loop {
        if c.done() {
            break;
        }
        match c.peek() {
            Some(p) if is_section(p) => break,
            Some(_) => {}
            None => return Err("non-utf8-token"),
        }
        let addr = c.next()?.to_string();
        let sr = ref_slot_range(c)?;
        m.entry(addr).or_default().push(sr);
    }
    for v in m.values_mut() {
        v.sort();
    }
    Ok(m)
}

/// Err(reason) = not an encoding; Ok(value) = the value it encodes (config None = only the
/// config section is malformed).
fn ref_setcluster(toks: &[Tok]) -> Result<CClusterMeta, &'static str> {
    let mut c = Cur { t: toks, i: 0 };
    if c.next()? != "v2" {
        return Err("bad-version");
    }
    let epoch = strict_u64(c.next()?)?;
    let (force, compress) = ref_flags(c.next()?)?;
    if compress {
        return Err("compressed");
    }
    let name = c.next()?.to_string();
    if ClusterName::try_from(name.as_str()).is_err() {
        return Err("bad-cluster-name");
    }
    let local = ref_node_map(&mut c)?;
    let mut peer = BTreeMap::new();
    let mut config = Some(c_config(&ClusterConfig::default()));
    let mut seen_peer = false;
    let mut seen_config = false;
    while !c.done() {
        let sec = c.next()?;
        if sec.eq_ignore_ascii_case("PEER") {
            if seen_peer {
                return Err("repeated-section");
            }
            seen_peer = true;
            peer = ref_node_map(&mut c)?;
        } else if sec.eq_ignore_ascii_case("CONFIG") {
            if seen_config {
                return Err("repeated-section");
            }
            seen_config = true;
            let mut cfg = ClusterConfig::default();
            let mut bad = false;
            loop {
                if c.done() {
                    break;
                }
                match c.peek() {
                    Some(p) if is_section(p) => break,
                    Some(_) => {}
                    None => return Err("non-utf8-token"),
                }
                let k = c.next()?.to_string();
                let v = match c.next() {
                    Ok(v) => v.to_string(),
                    Err("truncated") => {
                        bad = true;
                        break;
                    }
                    Err(e) => return Err(e),
                };
                let kl = k.to_lowercase();
                let ok = match kl.as_str() {
                    "compression_strategy" => match v.to_lowercase().as_str() {
                        "disabled" => { cfg.compression_strategy = CompressionStrategy::Disabled; true }
                        "set_get_only" => { cfg.compression_strategy = CompressionStrategy::SetGetOnly; true }
                        "allow_all" => { cfg.compression_strategy = CompressionStrategy::AllowAll; true }
                        _ => false,
                    },
                    "migration_max_migration_time" => strict_u64(&v).map(|n| cfg.migration_config.max_migration_time = n).is_ok(),
                    "migration_max_blocking_time" => strict_u64(&v).map(|n| cfg.migration_config.max_blocking_time = n).is_ok(),
                    "migration_scan_interval" => strict_u64(&v).map(|n| cfg.migration_config.scan_interval = n).is_ok(),
                    "migration_scan_count" => match strict_u64(&v) {
                        Ok(n) if n > 0 => { cfg.migration_config.scan_count = n; true }
                        _ => false,
                    },
                    _ => false,
                };
                if !ok {
                    bad = true;
                    // the rest of the section cannot be attributed; stop judging the config part
                    while !c.done() && !c.peek().map(is_section).unwrap_or(false) {
                        c.i += 1;
                    }
                    break;
                }
            }
            config = if bad { None } else { Some(c_config(&cfg)) };
        } else {
            return Err("trailing-garbage");
        }
    }
    Ok(CClusterMeta { epoch, force, compress, name, local, peer, config })
}

#[derive(Debug, Clone, PartialEq, Eq)]
struct CRepl {
    epoch: u64,
    force: bool,
    masters: Vec<(String, String, Vec<(String, String)>)>,
    replicas: Vec<(String, String, Vec<(String, String)>)>,
}

fn c_repl(m: &ReplicatorMeta) -> CRepl {
    let peers = |p: &Vec<ReplPeer>| p.iter().map(|x| (x.node_address.clone(), x.proxy_address.clone())).collect::<Vec<_>>();
    CRepl {
        epoch: m.epoch,
        force: m.flags.force,
        masters: m.masters.iter().map(|x| (x.cluster_name.to_string(), x.master_node_address.clone(), peers(&x.replicas))).collect(),
        replicas: m.replicas.iter().map(|x| (x.cluster_name.to_string(), x.replica_node_address.clone(), peers(&x.masters))).collect(),
    }
}

fn ref_setrepl(toks: &[Tok]) -> Result<CRepl, &'static str> {
    let mut c = Cur { t: toks, i: 0 };
    let epoch = strict_u64(c.next()?)?;
    let (force, _) = ref_flags(c.next()?)?;
    let mut masters = vec![];
    let mut replicas = vec![];
    while !c.done() {
        let role = c.next()?;
        let name = c.next()?.to_string();
        if ClusterName::try_from(name.as_str()).is_err() {
            return Err("bad-cluster-name");
        }
        let node = c.next()?.to_string();
        let n = strict_u64(c.next()?)?;
        if n > 1000 {
            return Err("bad-number");
        }
        let mut peers = vec![];
        for _ in 0..n {
            peers.push((c.next()?.to_string(), c.next()?.to_string()));
        }
        if role.eq_ignore_ascii_case("MASTER") {
            masters.push((name, node, peers));
        } else if role.eq_ignore_ascii_case("REPLICA") {
            replicas.push((name, node, peers));
        } else {
            return Err("bad-role");
        }
    }
    Ok(CRepl { epoch, force, masters, replicas })
}

fn ref_task(toks: &[Tok]) -> Result<(String, CSlotRange), &'static str> {
    let mut c = Cur { t: toks, i: 0 };
    let name = c.next()?.to_string();
    if ClusterName::try_from(name.as_str()).is_err() {
        return Err("bad-cluster-name");
    }
    let sr = ref_slot_range(&mut c)?;
    // `from_strings` is a streaming parser: tokens after a complete descriptor are left to the caller
    Ok((name, sr))
}

// ---------------------------------------------------------------------------------------------
// real parsers behind a uniform interface

fn real_setcluster(toks: &[Tok]) -> Result<CClusterMeta, String> {
    let r = resp_of(&["UMCTL", "SETCLUSTER"], toks);
    match ProxyClusterMeta::from_resp(&r) {
        Ok((m, ext)) => Ok(c_cluster_meta(&m, ext.is_ok(), true)),
        Err(e) => Err(format!("{:?}", e)),
    }
}
fn real_setrepl(toks: &[Tok]) -> Result<CRepl, String> {
    let r = resp_of(&["UMCTL", "SETREPL"], toks);
    ReplicatorMeta::from_resp(&r).map(|m| c_repl(&m)).map_err(|e| format!("{:?}", e))
}
fn real_task(toks: &[Tok]) -> Result<(String, CSlotRange), String> {
    // the journey of `UMCTL INFOMGR`: tokens joined by ' ', split by ' ' (coordinator/migration.rs)
    let strs: Option<Vec<String>> = toks.iter().map(|t| String::from_utf8(t.clone()).ok()).collect();
    let strs = strs.ok_or_else(|| "non-utf8".to_string())?;
    let joined = strs.join(" ");
    let mut it = joined.split(' ').map(|s| s.to_string()).collect::<Vec<_>>().into_iter().peekable();
    MigrationTaskMeta::from_strings(&mut it)
        .map(|t| (t.cluster_name.to_string(), c_slot_range(&t.slot_range)))
        .ok_or_else(|| "None".to_string())
}

// ---------------------------------------------------------------------------------------------
// generators

fn rl(v: &[(usize, usize)]) -> RangeList {
    RangeList::new(v.iter().map(|(a, b)| Range(*a, *b)).collect())
}
fn mm(e: u64) -> MigrationMeta {
    MigrationMeta { epoch: e, src_proxy_address: "pa:7000".into(), src_node_address: "pa:6000".into(), dst_proxy_address: "pb:7000".into(), dst_node_address: "pb:6000".into() }
}
fn slot_menus() -> Vec<Vec<SlotRange>> {
    vec![
        vec![],
        vec![SlotRange { range_list: rl(&[(0, 100)]), tag: SlotRangeTag::None }],
        vec![SlotRange { range_list: rl(&[(0, 100), (200, 300)]), tag: SlotRangeTag::None }],
        vec![SlotRange { range_list: rl(&[(400, 500)]), tag: SlotRangeTag::Migrating(mm(7)) }],
        vec![SlotRange { range_list: rl(&[(0, 100)]), tag: SlotRangeTag::None }, SlotRange { range_list: rl(&[(600, 700), (800, 800)]), tag: SlotRangeTag::Importing(mm(9)) }],
        vec![SlotRange { range_list: rl(&[(5, 5)]), tag: SlotRangeTag::Migrating(mm(3)) }, SlotRange { range_list: rl(&[(16383, 16383)]), tag: SlotRangeTag::Importing(mm(4)) }],
    ]
}

fn node_maps(names: [&str; 2], menus: &[Vec<SlotRange>]) -> Vec<HashMap<String, Vec<SlotRange>>> {
    let mut out = vec![HashMap::new()];
    for a in menus {
        let mut m = HashMap::new();
        m.insert(names[0].to_string(), a.clone());
        out.push(m);
        for b in menus {
            let mut m = HashMap::new();
            m.insert(names[0].to_string(), a.clone());
            m.insert(names[1].to_string(), b.clone());
            out.push(m);
        }
    }
    out
}

fn mutations(toks: &[Tok], with_non_utf8: bool) -> Vec<(String, Vec<Tok>)> {
    let mut out = vec![];
    for i in 0..toks.len() {
        let mut d = toks.to_vec();
        d.remove(i);
        out.push((format!("delete#{}", i), d));
        out.push((format!("truncate@{}", i), toks[..i].to_vec()));
        let t = &toks[i];
        let mut reps: Vec<Tok> = vec![b"".to_vec(), b"-1".to_vec(), b"99999999999999999999".to_vec()];
        if !t.is_empty() {
            reps.push(t[..t.len() - 1].to_vec());
        }
        let mut x = t.clone();
        x.push(b'x');
        reps.push(x);
        let mut p = b"+".to_vec();
        p.extend(t);
        reps.push(p);
        if with_non_utf8 {
            reps.push(vec![0xFF, 0xFE]);
        }
        for (j, r) in reps.into_iter().enumerate() {
            if &r == t {
                continue;
            }
            let mut d = toks.to_vec();
            d[i] = r;
            out.push((format!("replace#{}:{}", i, j), d));
        }
    }
    // structural mutations: adjacent transposition, duplication, insertion of a vocabulary token
    for i in 0..toks.len() {
        if i + 1 < toks.len() && toks[i] != toks[i + 1] {
            let mut d = toks.to_vec();
            d.swap(i, i + 1);
            out.push((format!("swap#{}", i), d));
        }
        let mut d = toks.to_vec();
        d.insert(i, toks[i].clone());
        out.push((format!("duplicate#{}", i), d));
    }
    for i in 0..=toks.len() {
        for (j, w) in ["PEER", "CONFIG", "MIGRATING", "IMPORTING", "1", "0-1", "h9:1", "MASTER", "REPLICA"].iter().enumerate() {
            let mut d = toks.to_vec();
            d.insert(i, w.as_bytes().to_vec());
            out.push((format!("insert#{}:{}", i, j), d));
        }
    }
    out
}

/// Every token sequence `prefix ++ w` with `w` of length <= maxlen over `vocab`, judged by the
/// reference parser against the real one (the token-level analogue of "all strings up to a length").
fn vocab_sweep<T: PartialEq + std::fmt::Debug + Send + 'static>(
    what: &'static str,
    prefix: Vec<Tok>,
    vocab: &'static [&'static str],
    maxlen: usize,
    reference: fn(&[Tok]) -> Result<T, &'static str>,
    real: fn(&[Tok]) -> Result<T, String>,
    acc: &mut Acc,
) -> usize {
    fn rec<T: PartialEq + std::fmt::Debug>(cur: &mut Vec<Tok>, left: usize, vocab: &[&str], what: &str, reference: fn(&[Tok]) -> Result<T, &'static str>, real: fn(&[Tok]) -> Result<T, String>, acc: &mut Acc, n: &mut usize) {
        *n += 1;
        judge(acc, what, "token-sequence", cur, reference(cur), real(cur));
        if left == 0 {
            return;
        }
        for w in vocab {
            cur.push(w.as_bytes().to_vec());
            rec(cur, left - 1, vocab, what, reference, real, acc, n);
            cur.pop();
        }
    }
    let mut total = 1;
    judge(acc, what, "token-sequence", &prefix, reference(&prefix), real(&prefix));
    if maxlen == 0 {
        return total;
    }
    let hs: Vec<_> = vocab
        .iter()
        .map(|w| {
            let mut cur = prefix.clone();
            cur.push(w.as_bytes().to_vec());
            std::thread::spawn(move || {
                let mut a = Acc { viol: vec![], evals: 0, accepted_valid: 0, rejected: 0 };
                let mut n = 0usize;
                rec(&mut cur, maxlen - 1, vocab, what, reference, real, &mut a, &mut n);
                (a, n)
            })
        })
        .collect();
    for h in hs {
        let (a, n) = h.join().expect("vocab sweep worker");
        total += n;
        acc.evals += a.evals;
        acc.accepted_valid += a.accepted_valid;
        acc.rejected += a.rejected;
        for v in a.viol {
            acc.add(v.key, v.desc, v.replay);
        }
    }
    total
}

struct Acc {
    viol: Vec<Violation>,
    evals: usize,
    accepted_valid: usize,
    rejected: usize,
}

impl Acc {
    fn add(&mut self, key: String, desc: String, replay: Value) {
        if self.viol.iter().filter(|v| v.key == key).count() < 2 {
            self.viol.push(Violation { key, desc, replay });
        }
    }
}

fn judge<T: PartialEq + std::fmt::Debug>(acc: &mut Acc, what: &str, mutation: &str, toks: &[Tok], reference: Result<T, &'static str>, real: Result<T, String>) {
    acc.evals += 1;
    let show = || toks.iter().map(|t| String::from_utf8_lossy(t).to_string()).collect::<Vec<_>>();
    match (reference, real) {
        (Ok(w), Ok(v)) => {
            acc.accepted_valid += 1;
            if w != v {
                acc.add(format!("{}:valid-encoding-parsed-differently", what), format!("{} {:?}: expected {:?} got {:?}", mutation, show(), w, v), json!({"tokens": show()}));
            }
        }
        (Ok(w), Err(e)) => {
            // rejecting a (mutated) valid encoding is not a silent misparse; only the unmutated
            // encoding of a generated value must be accepted (round trip)
            if mutation == "original" {
                acc.add(format!("{}:own-encoding-rejected", what), format!("{:?}: {} (value {:?})", show(), e, w), json!({"tokens": show()}));
            } else {
                acc.rejected += 1;
            }
        }
        (Err(why), Ok(v)) => {
            acc.add(format!("{}:non-encoding-accepted:{}", what, why), format!("{} {:?} is not an encoding ({}) but parses as {:?}", mutation, show(), why, v), json!({"tokens": show(), "mutation": mutation}));
        }
        (Err(_), Err(_)) => acc.rejected += 1,
    }
}

pub fn run(cli: &Cli) -> (Value, Vec<Violation>) {
    let thorough = cli.level() >= 1;
    let mut acc = Acc { viol: vec![], evals: 0, accepted_valid: 0, rejected: 0 };
    let menus = slot_menus();
    let menus_q: Vec<Vec<SlotRange>> = if thorough { menus.clone() } else { vec![menus[0].clone(), menus[2].clone(), menus[4].clone(), menus[5].clone()] };
    let locals = node_maps(["h1:6000", "h1:6001"], &menus_q);
    let peers = node_maps(["h2:7000", "h3:7000"], &menus_q);
    let mut configs = vec![];
    for s in [CompressionStrategy::Disabled, CompressionStrategy::SetGetOnly, CompressionStrategy::AllowAll] {
        for sc in [16u64, 1] {
            let mut c = ClusterConfig::default();
            c.compression_strategy = s;
            c.migration_config.scan_count = sc;
            configs.push(c);
        }
    }
    let mut values = 0usize;
    let mut mutated = 0usize;
    let mut samples = vec![];
    // ---- SETCLUSTER
    for (li, local) in locals.iter().enumerate() {
        for (pi, peer) in peers.iter().enumerate() {
            let cfg = &configs[(li + pi) % configs.len()];
            let force = (li + pi) % 2 == 0;
            let v = ProxyClusterMeta::new(100 + li as u64, ClusterMapFlags { force, compress: false }, ClusterName::try_from("c1").unwrap(), local.clone(), peer.clone(), cfg.clone());
            values += 1;
            let want = c_cluster_meta(&v, true, true);
            let plain = s2t(&v.to_args());
            if samples.len() < 2 && li == 3 && pi == 5 {
                samples.push(json!({"kind": "SETCLUSTER", "tokens": v.to_args()}));
            }
            // round trip (plain): the value itself must come back
            acc.evals += 1;
            match real_setcluster(&plain) {
                Ok(got) => {
                    if got != want {
                        let only_empty = {
                            let mut w2 = want.clone();
                            w2.local.retain(|_, v| !v.is_empty());
                            w2.peer.retain(|_, v| !v.is_empty());
                            w2 == got
                        };
                        acc.add(
                            if only_empty { "setcluster:plain-roundtrip-loses-nodes-without-slots".into() } else { "setcluster:plain-roundtrip-differs".into() },
                            format!("value {:?} encodes (plain) to {:?} and decodes to {:?}", want, v.to_args(), got),
                            json!({"tokens": v.to_args()}),
                        );
                    }
                }
                Err(e) => acc.add("setcluster:plain-roundtrip-rejected".into(), format!("{:?}: {}", v.to_args(), e), json!({"tokens": v.to_args()})),
            }
            // round trip (compressed) and agreement of the two decodings
            let vc = ProxyClusterMeta::new(100 + li as u64, ClusterMapFlags { force, compress: true }, ClusterName::try_from("c1").unwrap(), local.clone(), peer.clone(), cfg.clone());
            let comp = s2t(&vc.to_compressed_args().expect("compress"));
            acc.evals += 1;
            match real_setcluster(&comp) {
                Ok(mut got) => {
                    got.compress = false;
                    if got != want {
                        acc.add("setcluster:compressed-roundtrip-differs".into(), format!("value {:?} decodes (compressed) to {:?}", want, got), json!({"tokens": vc.to_compressed_args().unwrap()}));
                    }
                }
                Err(e) => acc.add("setcluster:compressed-roundtrip-rejected".into(), e, json!({})),
            }
            // reference agrees on the unmutated plain encoding, then all mutations
            let stride = if thorough { 1 } else { 7 };
            if (li * 31 + pi) % stride == 0 && plain.len() <= 60 {
                judge(&mut acc, "setcluster", "original", &plain, ref_setcluster(&plain).map(|mut r| { r.local.retain(|_, v| !v.is_empty()); r }), real_setcluster(&plain).map(|mut r| { r.local.retain(|_, v| !v.is_empty()); r.peer.retain(|_, v| !v.is_empty()); r }));
                for (name, m) in mutations(&plain, true) {
                    mutated += 1;
                    judge(&mut acc, "setcluster", &name, &m, ref_setcluster(&m), real_setcluster(&m));
                }
                // compressed payload: single-character deletion / substitution at 32 positions
                let payload = comp[3].clone();
                for k in 0..32usize {
                    let pos = k * payload.len() / 32;
                    for kind in 0..2 {
                        let mut p = payload.clone();
                        if kind == 0 {
                            p.remove(pos);
                        } else {
                            p[pos] = if p[pos] == b'A' { b'B' } else { b'A' };
                        }
                        let mut t = comp.clone();
                        t[3] = p;
                        mutated += 1;
                        acc.evals += 1;
                        match real_setcluster(&t) {
                            Ok(mut got) => {
                                got.compress = false;
                                if got != want {
                                    acc.add("setcluster:corrupted-compressed-payload-accepted".into(), format!("payload corrupted at {} ({}) decodes to different metadata {:?}", pos, if kind == 0 { "deletion" } else { "substitution" }, got), json!({"pos": pos, "kind": kind}));
                                } else {
                                    acc.accepted_valid += 1;
                                }
                            }
                            Err(_) => acc.rejected += 1,
                        }
                    }
                }
            }
        }
    }
    // ---- SETCLUSTER, CONFIG section: value combinations x every order of the key/value pairs
    // (the encoder emits them in hash-map order, the decoder applies them one at a time)
    let mut config_cases = 0usize;
    {
        let local = locals.iter().find(|l| !l.is_empty()).cloned().unwrap_or_default();
        let peer = peers.iter().find(|l| !l.is_empty()).cloned().unwrap_or_default();
        let mut cfgs = vec![];
        for s in [CompressionStrategy::Disabled, CompressionStrategy::AllowAll] {
            for mt in [1u64, 5, 10800, 4_000_000] {
                for bt in [1u64, 2000, 10000, 20_000_000_000] {
                    for (si, sc) in [(500u64, 16u64), (0, 1), (1_000_000, 1_000_000)] {
                        let mut c = ClusterConfig::default();
                        c.compression_strategy = s;
                        c.migration_config.max_migration_time = mt;
                        c.migration_config.max_blocking_time = bt;
                        c.migration_config.scan_interval = si;
                        c.migration_config.scan_count = sc;
                        cfgs.push(c);
                    }
                }
            }
        }
        fn perms(n: usize) -> Vec<Vec<usize>> {
            if n == 0 {
                return vec![vec![]];
            }
            let mut out = vec![];
            for p in perms(n - 1) {
                for i in 0..=p.len() {
                    let mut q = p.clone();
                    q.insert(i, n - 1);
                    out.push(q);
                }
            }
            out
        }
        for cfg in &cfgs {
            let v = ProxyClusterMeta::new(200, ClusterMapFlags { force: false, compress: false }, ClusterName::try_from("c1").unwrap(), local.clone(), peer.clone(), cfg.clone());
            let want = c_cluster_meta(&v, true, true);
            let plain = v.to_args();
            let ci = match plain.iter().position(|t| t.eq_ignore_ascii_case("CONFIG")) {
                Some(i) => i,
                None => {
                    acc.add("setcluster:config-section-missing".into(), format!("{:?}", plain), json!({"tokens": plain}));
                    continue;
                }
            };
            let pairs: Vec<(String, String)> = plain[ci + 1..].chunks(2).filter(|c| c.len() == 2).map(|c| (c[0].clone(), c[1].clone())).collect();
            let orders = if thorough || pairs.len() <= 3 { perms(pairs.len()) } else { perms(pairs.len()).into_iter().step_by(7).collect() };
            for o in orders {
                let mut toks: Vec<String> = plain[..=ci].to_vec();
                for i in &o {
                    toks.push(pairs[*i].0.clone());
                    toks.push(pairs[*i].1.clone());
                }
                config_cases += 1;
                acc.evals += 1;
                match real_setcluster(&s2t(&toks)) {
                    Ok(got) => {
                        let mut g = got.clone();
                        g.local.retain(|_, v| !v.is_empty());
                        g.peer.retain(|_, v| !v.is_empty());
                        let mut w = want.clone();
                        w.local.retain(|_, v| !v.is_empty());
                        w.peer.retain(|_, v| !v.is_empty());
                        if g != w {
                            acc.add("setcluster:config-decoding-depends-on-field-order".into(), format!("config {:?}: the plain encoding with its CONFIG pairs in order {:?} decodes to {:?}", want.config, toks[ci..].to_vec(), got.config), json!({"tokens": toks}));
                        }
                    }
                    Err(e) => acc.add("setcluster:config-decoding-depends-on-field-order".into(), format!("config {:?}: the plain encoding with its CONFIG pairs in order {:?} is rejected: {}", want.config, toks[ci..].to_vec(), e), json!({"tokens": toks})),
                }
            }
            let vc = ProxyClusterMeta::new(200, ClusterMapFlags { force: false, compress: true }, ClusterName::try_from("c1").unwrap(), local.clone(), peer.clone(), cfg.clone());
            config_cases += 1;
            acc.evals += 1;
            match vc.to_compressed_args().map_err(|e| format!("{:?}", e)).and_then(|a| real_setcluster(&s2t(&a))) {
                Ok(mut got) => {
                    got.compress = false;
                    if got.config != want.config {
                        acc.add("setcluster:compressed-roundtrip-differs".into(), format!("config {:?} decodes (compressed) to {:?}", want.config, got.config), json!({}));
                    }
                }
                Err(e) => acc.add("setcluster:compressed-roundtrip-rejected".into(), format!("config {:?}: {}", want.config, e), json!({})),
            }
        }
    }
    // ---- SETREPL
    let peer_sets: Vec<Vec<ReplPeer>> = vec![
        vec![],
        vec![ReplPeer { node_address: "h2:6000".into(), proxy_address: "h2:7000".into() }],
        vec![ReplPeer { node_address: "h2:6000".into(), proxy_address: "h2:7000".into() }, ReplPeer { node_address: "h3:6001".into(), proxy_address: "h3:7000".into() }],
    ];
    let cn = |s: &str| ClusterName::try_from(s).unwrap();
    let mut master_sets: Vec<Vec<MasterMeta>> = vec![vec![]];
    let mut replica_sets: Vec<Vec<ReplicaMeta>> = vec![vec![]];
    for p in &peer_sets {
        master_sets.push(vec![MasterMeta { cluster_name: cn("c1"), master_node_address: "h1:6000".into(), replicas: p.clone() }]);
        replica_sets.push(vec![ReplicaMeta { cluster_name: cn("c1"), replica_node_address: "h1:6001".into(), masters: p.clone() }]);
        for q in &peer_sets {
            master_sets.push(vec![
                MasterMeta { cluster_name: cn("c1"), master_node_address: "h1:6000".into(), replicas: p.clone() },
                MasterMeta { cluster_name: ClusterName::empty(), master_node_address: "h1:6001".into(), replicas: q.clone() },
            ]);
            replica_sets.push(vec![
                ReplicaMeta { cluster_name: cn("c1"), replica_node_address: "h1:6000".into(), masters: p.clone() },
                ReplicaMeta { cluster_name: cn("c-2"), replica_node_address: "h1:6001".into(), masters: q.clone() },
            ]);
        }
    }
    for (mi, ms) in master_sets.iter().enumerate() {
        for (ri, rs) in replica_sets.iter().enumerate() {
            let v = ReplicatorMeta { epoch: 5 + mi as u64, flags: ClusterMapFlags { force: (mi + ri) % 2 == 1, compress: false }, masters: ms.clone(), replicas: rs.clone() };
            values += 1;
            let want = c_repl(&v);
            let toks = s2t(&encode_repl_meta(v.clone()));
            if samples.len() < 3 && mi == 5 && ri == 2 {
                samples.push(json!({"kind": "SETREPL", "tokens": encode_repl_meta(v.clone())}));
            }
            acc.evals += 1;
            match real_setrepl(&toks) {
                Ok(got) if got == want => {}
                other => acc.add("setrepl:roundtrip-differs".into(), format!("{:?} -> {:?}", want, other), json!({"tokens": encode_repl_meta(v.clone())})),
            }
            if thorough || (mi + ri) % 3 == 0 {
                judge(&mut acc, "setrepl", "original", &toks, ref_setrepl(&toks), real_setrepl(&toks));
                for (name, m) in mutations(&toks, true) {
                    mutated += 1;
                    judge(&mut acc, "setrepl", &name, &m, ref_setrepl(&m), real_setrepl(&m));
                }
            }
        }
    }
    // ---- migration task descriptors
    for menu in &menus {
        for sr in menu {
            for name in ["c1", "a-b_c@d"] {
                let v = MigrationTaskMeta { cluster_name: cn(name), slot_range: sr.clone() };
                values += 1;
                let want = (name.to_string(), c_slot_range(sr));
                let strs = v.clone().into_strings();
                let toks = s2t(&strs);
                if samples.len() < 4 && sr.tag.is_migrating() {
                    samples.push(json!({"kind": "MigrationTaskMeta", "tokens": strs.clone()}));
                }
                acc.evals += 1;
                let mut it = strs.clone().into_iter().peekable();
                match MigrationTaskMeta::from_strings(&mut it) {
                    Some(got) if got == v => {}
                    other => acc.add("task:roundtrip-differs".into(), format!("{:?} -> {:?}", v, other), json!({"tokens": strs})),
                }
                judge(&mut acc, "task", "original", &toks, ref_task(&toks), real_task(&toks).map(|g| { let _ = &want; g }));
                for (mname, m) in mutations(&toks, false) {
                    mutated += 1;
                    judge(&mut acc, "task", &mname, &m, ref_task(&m), real_task(&m));
                }
                // appended token (a descriptor followed by garbage)
                let mut ext = toks.clone();
                ext.push(b"EXTRA".to_vec());
                mutated += 1;
                judge(&mut acc, "task", "append", &ext, ref_task(&ext), real_task(&ext));
            }
        }
    }
    // ---- every short token sequence over a vocabulary (token-level analogue of "all strings")
    let lvl = cli.level().min(2);
    let mut token_sequences = 0usize;
    {
        static V_CLUSTER: [&str; 11] = ["h1:6000", "1", "2", "0-5", "7-7", "MIGRATING", "IMPORTING", "PEER", "CONFIG", "pa:7000", "migration_scan_count"];
        static V_REPL: [&str; 8] = ["MASTER", "REPLICA", "c1", "h1:6000", "0", "1", "2", "h2:7000"];
        static V_TASK: [&str; 8] = ["c1", "MIGRATING", "IMPORTING", "1", "2", "0-5", "7-7", "pa:7000"];
        let t = |v: &[&str]| v.iter().map(|s| s.as_bytes().to_vec()).collect::<Vec<Tok>>();
        token_sequences += vocab_sweep("setcluster", t(&["v2", "1", "NOFLAG", "c1"]), &V_CLUSTER, [4, 6, 7][lvl], ref_setcluster, real_setcluster, &mut acc);
        token_sequences += vocab_sweep("setcluster", t(&["v2", "1", "NOFLAG", "c1", "h1:6000", "MIGRATING", "1", "0-5"]), &V_CLUSTER, [4, 6, 7][lvl], ref_setcluster, real_setcluster, &mut acc);
        token_sequences += vocab_sweep("setcluster", t(&["v2", "1", "FORCE", "c1", "h1:6000", "1", "0-5", "PEER", "h2:6000", "IMPORTING", "1", "7-7"]), &V_CLUSTER, [4, 6, 7][lvl], ref_setcluster, real_setcluster, &mut acc);
        token_sequences += vocab_sweep("setrepl", t(&["5", "NOFLAG"]), &V_REPL, [5, 7, 8][lvl], ref_setrepl, real_setrepl, &mut acc);
        token_sequences += vocab_sweep("task", vec![], &V_TASK, [5, 7, 8][lvl], ref_task, real_task, &mut acc);
        token_sequences += vocab_sweep("task", t(&["c1", "MIGRATING"]), &V_TASK, [5, 7, 8][lvl], ref_task, real_task, &mut acc);
        token_sequences += vocab_sweep("task", t(&["c1", "IMPORTING", "2", "0-5"]), &V_TASK, [5, 7, 8][lvl], ref_task, real_task, &mut acc);
    }
    // ---- pairs of token mutations (deepest level): every mutation of every single-token mutant
    let mut mutated_pairs = 0usize;
    if lvl >= 2 {
        for (li, local) in locals.iter().enumerate() {
            for (pi, peer) in peers.iter().enumerate() {
                if (li * 31 + pi) % 11 != 0 {
                    continue;
                }
                let v = ProxyClusterMeta::new(100 + li as u64, ClusterMapFlags { force: false, compress: false }, ClusterName::try_from("c1").unwrap(), local.clone(), peer.clone(), ClusterConfig::default());
                let plain = s2t(&v.to_args());
                let ci = plain.iter().position(|t| t.eq_ignore_ascii_case(b"CONFIG")).unwrap_or(plain.len());
                let plain = plain[..ci].to_vec();
                if plain.len() > 22 {
                    continue;
                }
                for (n1, m1) in mutations(&plain, false) {
                    for (n2, m2) in mutations(&m1, false) {
                        mutated_pairs += 1;
                        judge(&mut acc, "setcluster", &format!("{}+{}", n1, n2), &m2, ref_setcluster(&m2), real_setcluster(&m2));
                    }
                }
            }
        }
        for (mi, ms) in master_sets.iter().enumerate() {
            for (ri, rs) in replica_sets.iter().enumerate() {
                if (mi * 7 + ri) % 13 != 0 {
                    continue;
                }
                let v = ReplicatorMeta { epoch: 5, flags: ClusterMapFlags { force: false, compress: false }, masters: ms.clone(), replicas: rs.clone() };
                let toks = s2t(&encode_repl_meta(v));
                if toks.len() > 22 {
                    continue;
                }
                for (n1, m1) in mutations(&toks, false) {
                    for (n2, m2) in mutations(&m1, false) {
                        mutated_pairs += 1;
                        judge(&mut acc, "setrepl", &format!("{}+{}", n1, n2), &m2, ref_setrepl(&m2), real_setrepl(&m2));
                    }
                }
            }
        }
    }
    if samples.is_empty() {
        samples.push(json!("none"));
    }
    let cov = json!({
        "evaluations": acc.evals,
        "token_sequences_over_vocabulary": token_sequences,
        "mutation_pairs": mutated_pairs,
        "distinct_nontrivial": values + mutated + token_sequences + mutated_pairs,
        "config_order_cases": config_cases,
        "rule": "CONFIG family: 96 cluster configs (strategy x max_migration_time x max_blocking_time x scan interval/count, small / default / huge) x every order of the key/value pairs of the plain CONFIG section (a sample of the 120 orders in the lowest tier) + the compressed form; values: generated ProxyClusterMeta (0-2 local nodes x 0-2 peers x slot-range menus incl. multi-range lists and both tags x configs x force), ReplicatorMeta (0-2 masters/replicas x 0-2 peers), MigrationTaskMeta; each encoded by the real encoder; mutated encodings: every single-token deletion, truncation at every token, 6-7 replacements per token, adjacent transpositions, duplications, insertion of each of 9 keyword/number/address tokens at every position, (deepest level) every pair of such mutations on the short encodings; every token sequence of bounded length over a vocabulary of 8-11 tokens behind 7 fixed prefixes (all judged by the strict reference parsers); 64 single-character corruptions of each compressed payload; all distinct by construction",
        "values": values,
        "mutated_encodings": mutated,
        "mutants_still_valid_and_parsed_identically": acc.accepted_valid,
        "mutants_rejected_by_both": acc.rejected,
        "samples": samples,
        "exhaustive": true,
    });
    (cov, acc.viol)
}
