//! enummc — bounded-exhaustive input enumeration against reference models (C15, C09 key part, C17).

use bytes::BytesMut;
use serde_json::{json, Value};
use std::collections::BTreeMap;
use tokio_util::codec::Decoder;
use undermoon::protocol::{
    new_optional_multi_packet_codec, new_simple_packet_codec, Array, BulkStr, DecodedPacket,
    EncodedPacket, OptionalMulti, PacketDecoder, PacketEncoder, Resp, RespCodec, RespPacket, RespVec,
};
use vh::report::*;

mod c17;

// ------------------------------------------------------------------------------------------------
// C15

fn enc(v: &RespVec) -> Vec<u8> {
    let mut b = vec![];
    undermoon::protocol::encode_resp(&mut b, v).expect("encode");
    b
}

fn atoms(thorough: bool) -> Vec<RespVec> {
    let mut v = vec![];
    let lines: Vec<&[u8]> = if thorough { vec![b"", b"a", b"OK", b"-1"] } else { vec![b"", b"OK"] };
    for l in &lines {
        v.push(Resp::Simple(l.to_vec()));
        v.push(Resp::Error(l.to_vec()));
        v.push(Resp::Integer(l.to_vec()));
    }
    v.push(Resp::Bulk(BulkStr::Nil));
    let payloads: Vec<&[u8]> = if thorough {
        vec![b"", b"a", b"\r\n", b"\n", b"$1", &[0x00, 0xFF], b"*1\r\n$1\r\na\r\n"]
    } else {
        vec![b"", b"a", b"\r\n", b"$1\r\n", &[0x00, 0xFF]]
    };
    for p in payloads {
        v.push(Resp::Bulk(BulkStr::Str(p.to_vec())));
    }
    v.push(Resp::Arr(Array::Nil));
    v.push(Resp::Arr(Array::Arr(vec![])));
    v
}

/// All values with nesting depth <= depth and <= width elements per array.
fn values(depth: usize, width: usize, thorough: bool, cap: usize) -> Vec<RespVec> {
    let base = atoms(thorough);
    let mut level = base.clone();
    for _ in 0..depth {
        let mut next = base.clone();
        // arrays of 1..=width elements drawn from `level` (bounded: first `k` of level per slot)
        let pool: Vec<&RespVec> = level.iter().collect();
        let k = pool.len();
        for w in 1..=width {
            let total = k.pow(w as u32);
            let stride = if total > cap / (depth * width).max(1) { total / (cap / (depth * width).max(1)) + 1 } else { 1 };
            let mut idx = 0usize;
            while idx < total {
                let mut els = vec![];
                let mut x = idx;
                for _ in 0..w {
                    els.push((*pool[x % k]).clone());
                    x /= k;
                }
                next.push(Resp::Arr(Array::Arr(els)));
                idx += stride;
            }
        }
        level = next;
    }
    level
}

#[derive(Debug, Clone, PartialEq)]
enum Ref {
    Valid(RespVec, usize),
    /// not RESP by the letter of the specification, but a lenient decoder can still only mean this
    /// value ('+' sign or leading zeros in a length, "-0", a lone CR inside a line): the real
    /// decoder may reject it or return exactly this value
    Lenient(RespVec, usize),
    Incomplete,
    Invalid(&'static str),
}

/// Strict framing-level RESP reference (written from the protocol specification).
fn ref_parse(b: &[u8]) -> Ref {
    if b.is_empty() {
        return Ref::Incomplete;
    }
    let t = b[0];
    if !matches!(t, b'+' | b'-' | b':' | b'$' | b'*') {
        return Ref::Invalid("bad-type-byte");
    }
    // line
    let rest = &b[1..];
    // A line ends at the first LF, which must be preceded by CR (content before it is opaque).
    let line_end = match rest.iter().position(|c| *c == b'\n') {
        None => return Ref::Incomplete,
        Some(0) => return Ref::Invalid("bare-lf"),
        Some(i) => {
            if rest[i - 1] != b'\r' {
                return Ref::Invalid("bare-lf");
            }
            i - 1
        }
    };
    let line = &rest[..line_end];
    let after = 1 + line_end + 2;
    let lone_cr = line.contains(&b'\r');
    let mk = |v: RespVec, n: usize| if lone_cr { Ref::Lenient(v, n) } else { Ref::Valid(v, n) };
    match t {
        b'+' => mk(Resp::Simple(line.to_vec()), after),
        b'-' => mk(Resp::Error(line.to_vec()), after),
        b':' => mk(Resp::Integer(line.to_vec()), after),
        _ => {
            // decimal with optional sign (a leading '+' yields the intended value and is tolerated)
            let digits = if line.first() == Some(&b'+') || line.first() == Some(&b'-') { &line[1..] } else { line };
            if digits.is_empty() {
                return Ref::Invalid("bad-length:empty");
            }
            if !digits.iter().all(|c| c.is_ascii_digit()) {
                return Ref::Invalid("bad-length:non-digit");
            }
            let len: i64 = match std::str::from_utf8(line).unwrap().trim_start_matches('+').parse::<i64>() {
                Ok(n) => n,
                Err(_) => return Ref::Invalid("bad-length:overflow"),
            };
            if len < -1 {
                return Ref::Invalid("bad-length:below-minus-one");
            }
            let canonical = std::str::from_utf8(line).map(|t| t == len.to_string()).unwrap_or(false);
            let wrap = |r: Ref| match r {
                Ref::Valid(v, n) if !canonical => Ref::Lenient(v, n),
                other => other,
            };
            if t == b'$' {
                if len < 0 {
                    return wrap(Ref::Valid(Resp::Bulk(BulkStr::Nil), after));
                }
                let n = len as usize;
                let body = &b[after..];
                if body.len() >= n + 1 && body[n] != b'\r' {
                    return Ref::Invalid("bulk-trailer");
                }
                if body.len() >= n + 2 && body[n + 1] != b'\n' {
                    return Ref::Invalid("bulk-trailer");
                }
                if body.len() < n + 2 {
                    return Ref::Incomplete;
                }
                wrap(Ref::Valid(Resp::Bulk(BulkStr::Str(body[..n].to_vec())), after + n + 2))
            } else {
                if len < 0 {
                    return wrap(Ref::Valid(Resp::Arr(Array::Nil), after));
                }
                let mut pos = after;
                let mut els = vec![];
                let mut lenient = false;
                for _ in 0..len {
                    match ref_parse(&b[pos..]) {
                        Ref::Valid(v, n) => {
                            els.push(v);
                            pos += n;
                        }
                        Ref::Lenient(v, n) => {
                            lenient = true;
                            els.push(v);
                            pos += n;
                        }
                        other => return other,
                    }
                }
                if lenient {
                    Ref::Lenient(Resp::Arr(Array::Arr(els)), pos)
                } else {
                    wrap(Ref::Valid(Resp::Arr(Array::Arr(els)), pos))
                }
            }
        }
    }
}

fn decode_all(stream: &[u8], cuts: &[usize]) -> Result<(Vec<RespVec>, Vec<u8>), String> {
    // feed stream in pieces delimited by cuts through the session-side codec
    let (encoder, decoder) = new_simple_packet_codec::<Box<RespPacket>, Box<RespPacket>>();
    let mut codec = RespCodec::new(encoder, decoder);
    let mut buf = BytesMut::new();
    let mut out = vec![];
    let mut prev = 0;
    let mut bounds: Vec<usize> = cuts.to_vec();
    bounds.push(stream.len());
    for b in bounds {
        buf.extend_from_slice(&stream[prev..b]);
        prev = b;
        loop {
            let before = buf.to_vec();
            match codec.decode(&mut buf) {
                Ok(Some(p)) => {
                    // forwarded bytes must be the original bytes
                    let mut fw = vec![];
                    let pk: RespPacket = *p;
                    let v = pk.to_resp_vec();
                    let _ = pk.encode(|d| fw.extend_from_slice(d)).map_err(|e| e.to_string())?;
                    if !before.starts_with(&fw) {
                        return Err(format!("packet re-encodes to {:?} which is not the prefix of the consumed input {:?}", fw, before));
                    }
                    if before.len() - buf.len() != fw.len() {
                        return Err("consumed length differs from the packet's own bytes".into());
                    }
                    out.push(v);
                }
                Ok(None) => {
                    if buf.to_vec() != before {
                        return Err(format!("decoder returned None but changed the buffer {:?} -> {:?}", before, buf.to_vec()));
                    }
                    break;
                }
                Err(e) => return Err(format!("decode error {:?}", e)),
            }
        }
    }
    Ok((out, buf.to_vec()))
}

/// Stateful hint-driven decoder used by the Redis client (replies to Single / Multi(n) commands).
fn decode_multi_stateful(stream: &[u8], cuts: &[usize], n: Option<usize>) -> Result<Vec<RespVec>, String> {
    let (mut e, mut d) = new_optional_multi_packet_codec::<Vec<Vec<u8>>, RespVec>();
    let cmd = |_: usize| vec![b"PING".to_vec()];
    let pkt = match n {
        None => OptionalMulti::Single(cmd(0)),
        Some(k) => OptionalMulti::Multi((0..k).map(cmd).collect()),
    };
    e.encode(pkt, |_| {}).map_err(|_| "encoder not ready".to_string())?;
    let mut buf = BytesMut::new();
    let mut prev = 0;
    let mut bounds: Vec<usize> = cuts.to_vec();
    bounds.push(stream.len());
    for b in bounds {
        buf.extend_from_slice(&stream[prev..b]);
        prev = b;
        match d.decode(&mut buf) {
            Ok(Some(OptionalMulti::Single(v))) => return Ok(vec![v]),
            Ok(Some(OptionalMulti::Multi(v))) => return Ok(v),
            Ok(None) => {}
            Err(e) => return Err(format!("decode error {:?}", e)),
        }
    }
    Err("no packet produced after the whole stream was fed".into())
}

fn decode_multi_stateless(stream: &[u8], cuts: &[usize], n: usize) -> Result<Vec<RespVec>, String> {
    let mut buf = BytesMut::new();
    let mut prev = 0;
    let mut bounds: Vec<usize> = cuts.to_vec();
    bounds.push(stream.len());
    for b in bounds {
        buf.extend_from_slice(&stream[prev..b]);
        prev = b;
        let before = buf.to_vec();
        let hint = OptionalMulti::Multi((0..n).map(|_| ()).collect());
        match <OptionalMulti<RespVec> as DecodedPacket>::decode(&mut buf, hint) {
            Ok(Some(OptionalMulti::Multi(v))) => return Ok(v),
            Ok(Some(OptionalMulti::Single(v))) => return Ok(vec![v]),
            Ok(None) => {
                if buf.to_vec() != before {
                    return Err(format!("returned None but consumed {} bytes", before.len() - buf.len()));
                }
            }
            Err(e) => return Err(format!("decode error {:?}", e)),
        }
    }
    Err("no packet produced after the whole stream was fed".into())
}

/// Verdict of the strict reference on one raw input vs the real decoder: (reference class, violation).
fn judge_raw(inp: &[u8]) -> (&'static str, Option<(String, String)>) {
    let r = ref_parse(inp);
    let mut buf = BytesMut::from(inp);
    let got = RespVec::decode(&mut buf, ());
    let consumed = inp.len() - buf.len();
    let shown = if inp.len() > 80 { format!("{:?}..({} bytes)", String::from_utf8_lossy(&inp[..60]), inp.len()) } else { format!("{:?}", String::from_utf8_lossy(inp)) };
    match (&r, got) {
        (Ref::Valid(v, n), Ok(Some(g))) => {
            if &g != v || consumed != *n {
                ("valid", Some(("raw:valid-input-decoded-differently".into(), format!("{}: expected {:?} ({} bytes) got {:?} ({} bytes)", shown, v, n, g, consumed))))
            } else {
                ("valid", None)
            }
        }
        (Ref::Valid(v, _), Ok(None)) => ("valid", Some(("raw:valid-input-not-decoded".into(), format!("{}: expected {:?}, decoder wants more data", shown, v)))),
        (Ref::Valid(v, _), Err(_)) => ("valid", Some(("raw:valid-input-rejected".into(), format!("{}: expected {:?}, decoder reports protocol error", shown, v)))),
        (Ref::Lenient(v, n), Ok(Some(g))) => {
            if &g != v || consumed != *n {
                ("lenient", Some(("raw:lenient-input-decoded-differently".into(), format!("{}: a lenient reading can only mean {:?} ({} bytes) but the decoder returned {:?} ({} bytes)", shown, v, n, g, consumed))))
            } else {
                ("lenient", None)
            }
        }
        (Ref::Lenient(_, _), _) => ("lenient", None),
        (Ref::Incomplete, Ok(None)) => {
            if consumed != 0 {
                ("incomplete", Some(("raw:incomplete-input-consumed".into(), format!("{}: consumed {} bytes of an incomplete packet", shown, consumed))))
            } else {
                ("incomplete", None)
            }
        }
        (Ref::Incomplete, Ok(Some(g))) => ("incomplete", Some(("raw:incomplete-input-yields-value".into(), format!("{}: incomplete packet decoded as {:?}", shown, g)))),
        (Ref::Incomplete, Err(_)) => ("incomplete", Some(("raw:incomplete-input-rejected".into(), format!("{}: a prefix of a valid packet is reported as protocol error", shown)))),
        (Ref::Invalid(why), Ok(Some(g))) => ("invalid", Some((format!("raw:non-resp-accepted:{}", why), format!("{} is not RESP ({}) but decodes as {:?} consuming {} bytes", shown, why, g, consumed)))),
        (Ref::Invalid(_), _) => ("invalid", None),
    }
}

/// Length headers at and beyond the edges of the integer types a decoder may use, at bulk and
/// array position, alone and followed by data that a wrapped-around length would make "fit".
fn length_header_family() -> Vec<Vec<u8>> {
    let nums: Vec<String> = {
        let mut v: Vec<String> = vec![];
        for base in [1u128 << 31, 1u128 << 32, 1u128 << 53, 1u128 << 63, 1u128 << 64, 10u128.pow(19), 10u128.pow(20), 1u128 << 127] {
            for d in [-3i128, -2, -1, 0, 1, 2, 3, 4, 5] {
                let n = base as i128 + d;
                v.push(n.to_string());
                v.push(format!("-{}", n));
            }
        }
        for s in ["0", "1", "3", "-0", "-1", "-2", "+3", "+0", "00", "03", "0000000000000000000000003", "-0000000000000000000001", "1000000000000000000000000000000", "340282366920938463463374607431768211456", "340282366920938463463374607431768211459", "3 ", " 3", "3a", "0x3", "1e1", "٣"] {
            v.push(s.to_string());
        }
        v
    };
    let mut out = vec![];
    for n in &nums {
        for t in ["$", "*"] {
            for tail in ["", "\r", "\r\n", "\r\nfoo\r\n", "\r\n$3\r\nfoo\r\n", "\r\n\r\n", "\r\n+OK\r\n:1\r\n"] {
                out.push(format!("{}{}{}", t, n, tail).into_bytes());
            }
        }
    }
    out
}

fn run_c15(cli: &Cli) -> (Value, Vec<Violation>) {
    let thorough = cli.level() >= 1;
    let deep = cli.level() >= 2;
    let mut viol: Vec<Violation> = vec![];
    let mut add = |key: &str, desc: String, replay: Value| {
        if viol.iter().filter(|v| v.key == key).count() < 3 {
            viol.push(Violation { key: key.to_string(), desc, replay });
        }
    };
    // (a) round trip of grammar values
    let vals = values(if thorough { 3 } else { 2 }, if thorough { 3 } else { 2 }, thorough, if thorough { 60_000 } else { 12_000 });
    let mut n_round = 0usize;
    let mut distinct = std::collections::HashSet::new();
    for v in &vals {
        let e = enc(v);
        distinct.insert(e.clone());
        n_round += 1;
        let mut buf = BytesMut::from(&e[..]);
        buf.extend_from_slice(b"+tail\r\n");
        match RespVec::decode(&mut buf, ()) {
            Ok(Some(d)) => {
                if &d != v {
                    add("roundtrip:value-differs", format!("{:?} decoded as {:?}", v, d), json!({"bytes": e}));
                }
                if &buf[..] != b"+tail\r\n" {
                    add("roundtrip:consumed-wrong-length", format!("{:?}: rest {:?}", v, buf.to_vec()), json!({"bytes": e}));
                }
            }
            other => add("roundtrip:not-decoded", format!("{:?} -> {:?}", v, other.map(|o| o.is_some())), json!({"bytes": e})),
        }
        match ref_parse(&e) {
            Ref::Valid(rv, n) if &rv == v && n == e.len() => {}
            other => vh::report::machinery_error(&format!("reference parser disagrees with encoder on {:?}: {:?}", v, other)),
        }
    }
    // (b) splits
    let mut n_splits = 0usize;
    let split_vals: Vec<&RespVec> = if thorough { vals.iter().step_by(7).collect() } else { vals.iter().step_by(5).collect() };
    let mut streams: Vec<(Vec<u8>, Vec<RespVec>)> = vec![];
    for v in &split_vals {
        streams.push((enc(v), vec![(*v).clone()]));
    }
    // pipelines of 2 and 3 values
    let pv: Vec<&RespVec> = vals.iter().step_by(if thorough { 97 } else { 301 }).collect();
    for a in &pv {
        for b in &pv {
            let mut s = enc(a);
            s.extend(enc(b));
            streams.push((s.clone(), vec![(*a).clone(), (*b).clone()]));
            if thorough {
                for c in pv.iter().step_by(5) {
                    let mut s3 = s.clone();
                    s3.extend(enc(c));
                    streams.push((s3, vec![(*a).clone(), (*b).clone(), (*c).clone()]));
                }
            }
        }
    }
    // split cases are independent: 16 workers, results merged in stream order
    let streams = std::sync::Arc::new(streams);
    let per = (streams.len() + 15) / 16;
    let mut hs = vec![];
    for w in 0..16 {
        let streams = streams.clone();
        hs.push(std::thread::spawn(move || {
            let lo = (w * per).min(streams.len());
            let hi = ((w + 1) * per).min(streams.len());
            let chunk = &streams[lo..hi];
            let mut n = 0usize;
            let mut out: Vec<(String, String, Value)> = vec![];
            let mut push = |key: &str, desc: String, replay: Value| {
                if out.len() < 50 {
                    out.push((key.to_string(), desc, replay));
                }
            };
            for (s, want) in chunk {
            if s.len() > 64 {
                continue;
            }
            let mut cutsets: Vec<Vec<usize>> = vec![vec![]];
            for i in 1..s.len() {
                cutsets.push(vec![i]);
            }
            if s.len() <= (if thorough { 48 } else { 24 }) {
                for i in 1..s.len() {
                    for j in (i + 1)..s.len() {
                        cutsets.push(vec![i, j]);
                    }
                }
            }
            if deep && s.len() <= 22 {
                for i in 1..s.len() {
                    for j in (i + 1)..s.len() {
                        for k in (j + 1)..s.len() {
                            cutsets.push(vec![i, j, k]);
                        }
                    }
                }
            }
            for cuts in &cutsets {
                n += 1;
                match decode_all(s, cuts) {
                    Ok((got, rest)) => {
                        if &got != want || !rest.is_empty() {
                            push("split:sequence-differs", format!("stream {:?} cuts {:?}: got {:?} rest {:?}", s, cuts, got, rest), json!({"bytes": s, "cuts": cuts}));
                        }
                    }
                    Err(e) => push(
                        if e.contains("None but changed") { "split:none-consumed-bytes" } else if e.contains("re-encodes") || e.contains("consumed length") { "split:forwarded-bytes-modified" } else { "split:decode-error" },
                        format!("stream {:?} cuts {:?}: {}", s, cuts, e),
                        json!({"bytes": s, "cuts": cuts}),
                    ),
                }
                // hint-driven decoders: Single for 1 packet, Multi(n) for n
                let n = want.len();
                let r = decode_multi_stateful(s, cuts, if n == 1 { None } else { Some(n) });
                match r {
                    Ok(got) if &got == want => {}
                    other => push("split:hint-decoder-differs", format!("stream {:?} cuts {:?} hint {}: {:?}", s, cuts, n, other), json!({"bytes": s, "cuts": cuts})),
                }
                if n >= 2 {
                    match decode_multi_stateless(s, cuts, n) {
                        Ok(got) if &got == want => {}
                        Ok(got) => push("split:stateless-multi-differs", format!("stream {:?} cuts {:?}: {:?}", s, cuts, got), json!({"bytes": s, "cuts": cuts})),
                        Err(e) => push(
                            if e.contains("consumed") { "split:stateless-multi-consumes-on-incomplete" } else { "split:stateless-multi-differs" },
                            format!("stateless OptionalMulti::decode, stream {:?} cuts {:?}: {}", s, cuts, e),
                            json!({"bytes": s, "cuts": cuts}),
                        ),
                    }
                }
            }
        }
            (n, out)
        }));
    }
    for h in hs {
        let (n, out) = h.join().expect("split worker");
        n_splits += n;
        for (k, d, r) in out {
            add(&k, d, r);
        }
    }
    // (c) all short byte strings over the framing alphabet
    let alpha: &[u8] = b"*$+:-12a\r\n";
    let maxlen = if deep { 8 } else if thorough { 7 } else { 5 };
    let mut n_raw = 0usize;
    let mut verdicts: BTreeMap<&'static str, usize> = BTreeMap::new();
    fn rec(s: &mut Vec<u8>, alpha: &[u8], maxlen: usize, f: &mut dyn FnMut(&[u8])) {
        f(s);
        if s.len() == maxlen {
            return;
        }
        for a in alpha {
            s.push(*a);
            rec(s, alpha, maxlen, f);
            s.pop();
        }
    }
    let mut raw_viol: Vec<(String, String, Vec<u8>)> = vec![];
    // one worker per first byte (plus the empty string); results merged in alphabet order so that
    // the report does not depend on thread timing
    type RawOut = (usize, BTreeMap<&'static str, usize>, Vec<(String, String, Vec<u8>)>);
    fn raw_sweep(start: Vec<u8>, alpha: &[u8], maxlen: usize) -> RawOut {
        let mut n_raw = 0usize;
        let mut verdicts: BTreeMap<&'static str, usize> = BTreeMap::new();
        let mut raw_viol: Vec<(String, String, Vec<u8>)> = vec![];
        let mut s = start;
        rec(&mut s, alpha, maxlen, &mut |inp: &[u8]| {
            n_raw += 1;
            let (class, v) = judge_raw(inp);
            *verdicts.entry(class).or_default() += 1;
            if let Some((k, d)) = v {
                if raw_viol.len() < 200 {
                    raw_viol.push((k, d, inp.to_vec()));
                }
            }
        });
        (n_raw, verdicts, raw_viol)
    }
    {
        let mut parts: Vec<RawOut> = vec![raw_sweep(vec![], alpha, 0)];
        let hs: Vec<_> = alpha.iter().map(|a| { let a = *a; std::thread::spawn(move || raw_sweep(vec![a], b"*$+:-12a\r\n", maxlen)) }).collect();
        for h in hs {
            parts.push(h.join().expect("raw sweep worker"));
        }
        for (n, v, viols) in parts {
            n_raw += n;
            for (k, c) in v {
                *verdicts.entry(k).or_default() += c;
            }
            raw_viol.extend(viols);
        }
    }
    // "start from non-initial states": all suffixes of length <= 3 after prefixes that put the
    // decoder in the middle of a bulk payload / an array
    let prefixes: Vec<&[u8]> = vec![b"$1\r\na", b"$0\r\n", b"$2\r\n\r\n", b"*1\r\n", b"*2\r\n+\r\n", b"*1\r\n$1\r\na", b"$-1", b"*-1"];
    for pre in prefixes {
        let mut s: Vec<u8> = pre.to_vec();
        let base = s.len();
        rec(&mut s, alpha, base + 3, &mut |inp: &[u8]| {
            n_raw += 1;
            let (class, v) = judge_raw(inp);
            *verdicts.entry(class).or_default() += 1;
            if let Some((k, d)) = v {
                raw_viol.push((k, d, inp.to_vec()));
            }
        });
    }
    // (d) length headers around the integer-type edges
    let headers = length_header_family();
    let n_headers = headers.len();
    for inp in &headers {
        n_raw += 1;
        let (class, v) = judge_raw(inp);
        *verdicts.entry(class).or_default() += 1;
        if let Some((k, d)) = v {
            raw_viol.push((k, d, inp.clone()));
        }
    }
    for (k, d, inp) in raw_viol {
        add(&k, d, json!({"bytes": inp}));
    }
    let cov = json!({
        "evaluations": n_round + n_splits + n_raw,
        "distinct_nontrivial": distinct.len() + n_raw,
        "rule": "grammar values (atoms x nesting/width bound) are distinct by encoding; raw strings are all distinct; split cases are (stream, cut set) pairs",
        "roundtrip_values": n_round,
        "split_cases": n_splits,
        "raw_strings": n_raw,
        "length_header_inputs": n_headers,
        "raw_reference_verdicts": verdicts,
        "samples": [
            {"value": format!("{:?}", vals[vals.len() / 2]), "bytes": String::from_utf8_lossy(&enc(&vals[vals.len() / 2]))},
            {"raw": "*1\\r\\n$", "reference": format!("{:?}", ref_parse(b"*1\r\n$"))},
            {"raw": "+a\\n", "reference": format!("{:?}", ref_parse(b"+a\n"))},
        ],
        "exhaustive": true,
        "bound": format!("values: nesting<={} width<={}; splits: all 1- and 2-cut sets of streams <=64 bytes (2 cuts up to {} bytes; at the deepest level also all 3-cut sets of streams <= 22 bytes); raw: all strings of length <={} over {:?}", if thorough {3} else {2}, if thorough {3} else {2}, if thorough {48} else {24}, maxlen, String::from_utf8_lossy(alpha)),
    });
    (cov, viol)
}

fn main() {
    let cli = Cli::parse();
    std::panic::set_hook(Box::new(|_| {}));
    let t0 = std::time::Instant::now();
    let (level, (cov, viol)) = match cli.prop.as_str() {
        "C15" => ("model_checking", run_c15(&cli)),
        "C09" => ("model_checking", vh::c09keys::run_c09_keys(&cli)),
        "C17" => ("model_checking", c17::run(&cli)),
        _ => machinery_error("enummc serves C15 C09 C17"),
    };
    let mut rep = Report::new(&cli, level);
    rep.start = t0;
    rep.assumptions = vec!["reference models (strict RESP framer, bit-wise CRC16 + hash-tag rule, token-level re-encoding) are written in the harness from the specifications".into()];
    std::process::exit(rep.finish(cov, viol));
}
