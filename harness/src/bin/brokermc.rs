//! brokermc — explicit-state search over the real in-memory broker (C01 C04 C06 C10 C12).
//!
//! Level-synchronous BFS; every transition restores a fresh `MemBrokerService` from the
//! pre-state snapshot, performs one public API call and snapshots again.  States are
//! de-duplicated on a canonical form (sorted maps, report times erased, epochs rank-compressed);
//! the rank compression is re-validated on every transition by executing it from two different
//! concretisations.

use serde_json::{json, Value};
use std::collections::{BTreeMap, BTreeSet, HashSet};
use std::hash::{Hash, Hasher};
use std::sync::atomic::{AtomicUsize, Ordering};
use std::sync::{Arc, Mutex};
use std::time::Instant;
use undermoon::common::cluster::{Cluster, Proxy, Role, SlotRange, SlotRangeTag};
use vh::brokerlib::*;
use vh::det;
use vh::report::*;

const SLOTS: usize = 16384;

#[derive(Clone, Debug, PartialEq, Eq)]
enum Profile {
    General,
    Scaling,
}

#[derive(Clone, Debug)]
struct RunCfg {
    layout: Layout,
    broker: BrokerCfg,
    profile: Profile,
    depth: usize,
    clusters: Vec<String>,
    sizes: Vec<usize>,
    stale: bool,
    init_ops: Vec<Op>,
    register_all: bool,
    family: Option<String>,
    max_states: usize,
    label: String,
}

#[derive(Clone, Debug)]
struct State {
    snap: Value,        // canonical (epoch = rank)
    stale: Vec<String>, // canonical stale tasks (JSON), sorted, <= 2
}

fn h128(s: &str) -> u128 {
    let mut a = std::collections::hash_map::DefaultHasher::new();
    s.hash(&mut a);
    let mut b = std::collections::hash_map::DefaultHasher::new();
    0xA5A5_5A5Au32.hash(&mut b);
    s.hash(&mut b);
    ((a.finish() as u128) << 64) | b.finish() as u128
}

fn state_key(st: &State) -> String {
    format!("{}|{}", st.snap, st.stale.join(";"))
}

/// Rank-compress all epochs of (snapshot, stale tasks).
fn canonicalise(mut snap: Value, mut stale: Vec<String>) -> State {
    set_failure_times(&mut snap, 0);
    normalise_snapshot(&mut snap);
    let mut es = BTreeSet::new();
    collect_epochs(&snap, &mut es);
    for t in &stale {
        let tm: undermoon::common::cluster::MigrationTaskMeta = serde_json::from_str(t).unwrap();
        es.insert(task_epoch(&tm));
    }
    let ranks: BTreeMap<u64, u64> = es.iter().enumerate().map(|(i, e)| (*e, i as u64)).collect();
    let f = |e: u64| *ranks.get(&e).unwrap_or(&0);
    map_epochs(&mut snap, &f);
    for t in stale.iter_mut() {
        *t = map_task_epoch(t, &f);
    }
    stale.sort();
    stale.dedup();
    State { snap, stale }
}

fn concretise(st: &State, which: u8, now: i64) -> (Value, Box<dyn Fn(u64) -> u64 + Send>) {
    let f: Box<dyn Fn(u64) -> u64 + Send> = if which == 0 {
        Box::new(|r| r + 1)
    } else {
        Box::new(|r| 7 * (r + 1) + 3)
    };
    let mut s = st.snap.clone();
    map_epochs(&mut s, &*f);
    set_failure_times(&mut s, now);
    (s, f)
}

// ------------------------------------------------------------------------------------------------
// views

struct Views {
    limit: u64,
    clusters: BTreeMap<String, Cluster>,
    proxies: BTreeMap<String, Proxy>,
    infos: BTreeMap<String, Value>,
    check_ok: bool,
    epoch: u64,
}

fn views_of(cfg: &BrokerCfg, snap: &Value, limit: u64) -> Views {
    let b = Broker::from_snapshot(cfg, limit, snap).expect("restore for views");
    let mut clusters = BTreeMap::new();
    let mut infos = BTreeMap::new();
    for c in cluster_names(snap) {
        if let Some(cl) = b.cluster(&c) {
            clusters.insert(c.clone(), cl);
        }
        if let Some(i) = b.cluster_info(&c) {
            infos.insert(c.clone(), i);
        }
    }
    let mut proxies = BTreeMap::new();
    for p in proxy_addrs(snap) {
        if let Some(px) = b.proxy(&p) {
            proxies.insert(p, px);
        }
    }
    Views {
        limit,
        clusters,
        proxies,
        infos,
        check_ok: b.check_metadata_ok(),
        epoch: b.epoch(),
    }
}

// ------------------------------------------------------------------------------------------------
// C01: slot partition + twins

struct VNode<'a> {
    addr: Option<&'a str>,
    proxy: &'a str,
    master: bool,
    slots: &'a [SlotRange],
}

fn range_list_ok(s: &SlotRange) -> Result<(), String> {
    let rs = s.get_range_list().get_ranges();
    if rs.is_empty() {
        return Err("empty range list".into());
    }
    let mut prev_end: Option<usize> = None;
    for r in rs {
        if r.start() > r.end() {
            return Err(format!("range {}-{} reversed", r.start(), r.end()));
        }
        if r.end() >= SLOTS {
            return Err(format!("range {}-{} outside 0..16383", r.start(), r.end()));
        }
        if let Some(pe) = prev_end {
            if r.start() <= pe {
                return Err(format!("ranges overlap/unsorted at {}", r.start()));
            }
        }
        prev_end = Some(r.end());
    }
    Ok(())
}

fn check_partition(nodes: &[VNode], what: &str) -> Result<(), (String, String)> {
    let mut owner: Vec<u16> = vec![0; SLOTS];
    for (ni, n) in nodes.iter().enumerate() {
        if !n.master && !n.slots.is_empty() {
            return Err((
                "replica-owns-slots".into(),
                format!("{}: replica {:?} lists slots", what, n.addr),
            ));
        }
        for s in n.slots {
            range_list_ok(s).map_err(|e| ("bad-range-list".to_string(), format!("{}: {}", what, e)))?;
            if s.tag.is_importing() {
                continue;
            }
            for r in s.get_range_list().get_ranges() {
                for slot in r.start()..=r.end() {
                    if owner[slot] != 0 {
                        return Err((
                            "slot-owned-twice".into(),
                            format!(
                                "{}: slot {} owned by node#{} and node#{}",
                                what,
                                slot,
                                owner[slot] - 1,
                                ni
                            ),
                        ));
                    }
                    owner[slot] = ni as u16 + 1;
                }
            }
        }
    }
    if let Some(slot) = owner.iter().position(|o| *o == 0) {
        return Err((
            "slot-unowned".into(),
            format!("{}: slot {} has no owner", what, slot),
        ));
    }
    // twins
    for (ni, n) in nodes.iter().enumerate() {
        for s in n.slots {
            let (meta, migrating) = match &s.tag {
                SlotRangeTag::Migrating(m) => (m, true),
                SlotRangeTag::Importing(m) => (m, false),
                SlotRangeTag::None => continue,
            };
            // the range sits on the node its meta names
            let (my_node, my_proxy, other_node, other_proxy) = if migrating {
                (
                    &meta.src_node_address,
                    &meta.src_proxy_address,
                    &meta.dst_node_address,
                    &meta.dst_proxy_address,
                )
            } else {
                (
                    &meta.dst_node_address,
                    &meta.dst_proxy_address,
                    &meta.src_node_address,
                    &meta.src_proxy_address,
                )
            };
            if n.proxy != my_proxy || n.addr.map(|a| a != my_node).unwrap_or(false) {
                return Err((
                    "migration-tag-on-wrong-node".into(),
                    format!(
                        "{}: {} range {} sits on {:?}@{} but names {}@{}",
                        what,
                        if migrating { "migrating" } else { "importing" },
                        s.get_range_list(),
                        n.addr,
                        n.proxy,
                        my_node,
                        my_proxy
                    ),
                ));
            }
            let mut twins = 0;
            for (mi, m) in nodes.iter().enumerate() {
                for t in m.slots {
                    let tm = match (&t.tag, migrating) {
                        (SlotRangeTag::Importing(tm), true) => tm,
                        (SlotRangeTag::Migrating(tm), false) => tm,
                        _ => continue,
                    };
                    if t.get_range_list() == s.get_range_list() && tm == meta {
                        twins += 1;
                        let on_right_node = m.proxy == other_proxy
                            && m.addr.map(|a| a == other_node).unwrap_or(true)
                            && m.master
                            && mi != ni;
                        if !on_right_node {
                            return Err((
                                "twin-on-wrong-node".into(),
                                format!(
                                    "{}: twin of {} sits on {:?}@{} (master={}) expected {}@{}",
                                    what,
                                    s.get_range_list(),
                                    m.addr,
                                    m.proxy,
                                    m.master,
                                    other_node,
                                    other_proxy
                                ),
                            ));
                        }
                    }
                }
            }
            if twins != 1 {
                return Err((
                    if migrating {
                        "migrating-without-single-importing-twin".into()
                    } else {
                        "importing-without-single-migrating-twin".into()
                    },
                    format!(
                        "{}: {} range {} epoch {} has {} twins",
                        what,
                        if migrating { "migrating" } else { "importing" },
                        s.get_range_list(),
                        meta.epoch,
                        twins
                    ),
                ));
            }
        }
    }
    Ok(())
}

fn c01_state(v: &Views) -> Vec<(String, String)> {
    let mut out = vec![];
    for (name, c) in &v.clusters {
        let nodes: Vec<VNode> = c
            .get_nodes()
            .iter()
            .map(|n| VNode {
                addr: Some(n.get_address()),
                proxy: n.get_proxy_address(),
                master: n.get_role() == Role::Master,
                slots: n.get_slots(),
            })
            .collect();
        if let Err((k, d)) = check_partition(&nodes, &format!("cluster view {} limit {}", name, v.limit)) {
            out.push((format!("cluster-view:{}", k), d));
        }
    }
    for (addr, p) in &v.proxies {
        if p.get_cluster_name().is_none() {
            continue;
        }
        let own = p.get_nodes();
        let mut nodes: Vec<VNode> = own
            .iter()
            .map(|n| VNode {
                addr: Some(n.get_address()),
                proxy: n.get_proxy_address(),
                master: n.get_role() == Role::Master,
                slots: n.get_slots(),
            })
            .collect();
        for peer in p.get_peers() {
            nodes.push(VNode {
                addr: None,
                proxy: &peer.proxy_address,
                master: true,
                slots: &peer.slots,
            });
        }
        if let Err((k, d)) = check_partition(&nodes, &format!("proxy view {} limit {}", addr, v.limit)) {
            out.push((format!("proxy-view:{}", k), d));
        }
    }
    out
}

// ------------------------------------------------------------------------------------------------
// C04: epochs

fn strip_epoch(p: &Proxy) -> Value {
    let mut v = serde_json::to_value(p).unwrap();
    if let Some(o) = v.as_object_mut() {
        o.remove("epoch");
    }
    v
}

fn c04_edge(pre: &Views, post: &Views) -> Vec<(String, String)> {
    let mut out = vec![];
    if post.epoch < pre.epoch {
        out.push((
            "global-epoch-decreased".into(),
            format!("global epoch {} -> {}", pre.epoch, post.epoch),
        ));
    }
    for (addr, a) in &pre.proxies {
        if let Some(b) = post.proxies.get(addr) {
            if b.get_epoch() < a.get_epoch() {
                out.push((
                    "served-epoch-decreased".into(),
                    format!(
                        "proxy {} limit {} epoch {} -> {}",
                        addr,
                        pre.limit,
                        a.get_epoch(),
                        b.get_epoch()
                    ),
                ));
            } else if b.get_epoch() == a.get_epoch() && strip_epoch(a) != strip_epoch(b) {
                out.push((
                    "view-changed-without-epoch-bump".into(),
                    format!(
                        "proxy {} limit {} epoch stays {} but view changed: {} -> {}",
                        addr,
                        pre.limit,
                        a.get_epoch(),
                        strip_epoch(a),
                        strip_epoch(b)
                    ),
                ));
            }
        }
    }
    out
}

fn imax_ok(snap: &Value) -> bool {
    let mut es = BTreeSet::new();
    collect_epochs(snap, &mut es);
    es.iter().next_back().cloned().unwrap_or(0) == global_epoch(snap)
}

// ------------------------------------------------------------------------------------------------
// snapshot helpers (JSON)

struct Chunk {
    proxies: [String; 2],
    hosts: [String; 2],
    has_stable: [bool; 2],
    n_mig: [usize; 2],
    role: String,
}

fn chunks_of(snap: &Value, cluster: &str) -> Vec<Chunk> {
    let mut v = vec![];
    let chs = snap
        .pointer(&format!("/clusters/{}/chunks", cluster))
        .and_then(|x| x.as_array())
        .cloned()
        .unwrap_or_default();
    for ch in chs {
        let s = |p: &str| ch.pointer(p).and_then(|x| x.as_str()).unwrap_or("").to_string();
        v.push(Chunk {
            proxies: [s("/proxy_addresses/0"), s("/proxy_addresses/1")],
            hosts: [s("/hosts/0"), s("/hosts/1")],
            has_stable: [
                !ch.pointer("/stable_slots/0").map(|x| x.is_null()).unwrap_or(true),
                !ch.pointer("/stable_slots/1").map(|x| x.is_null()).unwrap_or(true),
            ],
            n_mig: [
                ch.pointer("/migrating_slots/0").and_then(|x| x.as_array()).map(|a| a.len()).unwrap_or(0),
                ch.pointer("/migrating_slots/1").and_then(|x| x.as_array()).map(|a| a.len()).unwrap_or(0),
            ],
            role: s("/role_position"),
        });
    }
    v
}

fn members(snap: &Value) -> BTreeMap<String, Vec<(String, usize, usize)>> {
    // proxy -> [(cluster, chunk index, part)]
    let mut m: BTreeMap<String, Vec<(String, usize, usize)>> = BTreeMap::new();
    for c in cluster_names(snap) {
        for (i, ch) in chunks_of(snap, &c).iter().enumerate() {
            for part in 0..2 {
                m.entry(ch.proxies[part].clone())
                    .or_default()
                    .push((c.clone(), i, part));
            }
        }
    }
    m
}

fn failed_set(snap: &Value) -> BTreeSet<String> {
    snap.get("failed_proxies")
        .and_then(|x| x.as_array())
        .map(|a| a.iter().filter_map(|x| x.as_str().map(|s| s.to_string())).collect())
        .unwrap_or_default()
}
fn reported_set(snap: &Value) -> BTreeSet<String> {
    snap.get("failures")
        .and_then(|x| x.as_object())
        .map(|m| m.keys().cloned().collect())
        .unwrap_or_default()
}
fn proxy_host(snap: &Value, addr: &str) -> String {
    snap.pointer(&format!("/all_proxies/{}/host", addr.replace('~', "~0").replace('/', "~1")))
        .and_then(|x| x.as_str())
        .unwrap_or("")
        .to_string()
}
fn proxy_cluster(snap: &Value, addr: &str) -> Option<String> {
    snap.pointer(&format!("/all_proxies/{}/cluster", addr.replace('~', "~0").replace('/', "~1")))
        .and_then(|x| x.as_str())
        .map(|s| s.to_string())
}
fn without_global(snap: &Value) -> Value {
    let mut s = snap.clone();
    if let Some(o) = s.as_object_mut() {
        o.remove("global_epoch");
    }
    s
}

// ------------------------------------------------------------------------------------------------
// C12: resources

fn c12_state(snap: &Value, v: &Views) -> Vec<(String, String)> {
    let mut out = vec![];
    if !v.check_ok {
        out.push(("check-metadata-failed".into(), "broker's own check_metadata reports inconsistency".into()));
    }
    let mem = members(snap);
    for (p, pos) in &mem {
        if pos.len() > 1 {
            out.push((
                "proxy-in-two-positions".into(),
                format!("proxy {} occupies {:?}", p, pos),
            ));
        }
        if !proxy_addrs(snap).contains(p) {
            out.push(("member-not-registered".into(), format!("member {} is not registered", p)));
        }
    }
    for p in proxy_addrs(snap) {
        let tagged = proxy_cluster(snap, &p);
        let actual = mem.get(&p).and_then(|v| v.first()).map(|x| x.0.clone());
        if tagged != actual {
            out.push((
                "membership-tag-mismatch".into(),
                format!("proxy {} tagged {:?} but member of {:?}", p, tagged, actual),
            ));
        }
        if let Some(px) = v.proxies.get(&p) {
            let served_member = px.get_cluster_name().map(|c| c.to_string());
            if served_member != actual {
                out.push((
                    "served-membership-mismatch".into(),
                    format!("proxy {} served as {:?} but member of {:?}", p, served_member, actual),
                ));
            }
            let free_listed = !px.get_free_nodes().is_empty();
            if free_listed != actual.is_none() {
                out.push((
                    "free-nodes-mismatch".into(),
                    format!("proxy {} free nodes listed={} member={:?}", p, free_listed, actual),
                ));
            }
        }
    }
    out
}

fn c12_edge(op: &Op, res: &str, pre: &Value, post: &Value) -> Vec<(String, String)> {
    let mut out = vec![];
    let is_alloc = matches!(
        op,
        Op::AddCluster { .. } | Op::AutoAddNodes { .. } | Op::AutoScaleUp { .. }
    );
    if is_alloc && !res.starts_with("OK") && without_global(pre) != without_global(post) {
        out.push((
            format!("refused-alloc-left-partial-state:{}", res),
            format!("{:?} refused with {} but changed the store", op, res),
        ));
    }
    // new chunks span two hosts
    let pre_mem = members(pre);
    for c in cluster_names(post) {
        for ch in chunks_of(post, &c) {
            let is_new = ch.proxies.iter().all(|p| !pre_mem.contains_key(p));
            if is_new && is_alloc && ch.hosts[0] == ch.hosts[1] {
                out.push((
                    "new-chunk-on-one-host".into(),
                    format!("{:?}: chunk {:?} has both halves on host {}", op, ch.proxies, ch.hosts[0]),
                ));
            }
        }
    }
    // replacement host
    if let (Op::Failover { addr }, true) = (op, res.starts_with("OK:")) {
        let newp = &res[3..];
        let pos = pre_mem.get(addr).and_then(|v| v.first()).cloned();
        if let Some((c, i, part)) = pos {
            let chs = chunks_of(pre, &c);
            let partner_host = chs[i].hosts[1 - part].clone();
            let new_host = proxy_host(pre, newp);
            let failed = failed_set(pre);
            let reported = reported_set(pre);
            let other_free: Vec<String> = proxy_addrs(pre)
                .into_iter()
                .filter(|p| {
                    proxy_cluster(pre, p).is_none()
                        && !failed.contains(p)
                        && !reported.contains(p)
                        && p != addr
                        && proxy_host(pre, p) != partner_host
                })
                .collect();
            if new_host == partner_host && !other_free.is_empty() {
                let failed_host = proxy_host(pre, addr);
                let third = other_free.iter().any(|p| proxy_host(pre, p) != failed_host);
                out.push((
                    if third {
                        "replacement-on-partner-host:third-host-had-free-proxy".to_string()
                    } else {
                        "replacement-on-partner-host:only-the-failed-proxys-own-host-had-free-proxy".to_string()
                    },
                    format!(
                        "failover of {}: replacement {} is on the surviving partner's host {} although {:?} were free on other hosts",
                        addr, newp, partner_host, other_free
                    ),
                ));
            }
        }
    }
    out
}

// ------------------------------------------------------------------------------------------------
// C06: failover

fn node_ranges(c: &Cluster, addr: &str) -> Option<Vec<(String, u8)>> {
    c.get_node(addr).map(|n| {
        let mut v: Vec<(String, u8)> = n
            .get_slots()
            .iter()
            .map(|s| {
                (
                    format!("{}", s.get_range_list()),
                    match s.tag {
                        SlotRangeTag::None => 0,
                        SlotRangeTag::Migrating(_) => 1,
                        SlotRangeTag::Importing(_) => 2,
                    },
                )
            })
            .collect();
        v.sort();
        v
    })
}

fn c06_edge(op: &Op, res: &str, pre_s: &Value, post_s: &Value, pre: &Views, post: &Views) -> Vec<(String, String)> {
    let mut out = vec![];
    // allocation of marked proxies (every op)
    let pre_mem = members(pre_s);
    let post_mem = members(post_s);
    let failed = failed_set(pre_s);
    let reported = reported_set(pre_s);
    for p in post_mem.keys() {
        if !pre_mem.contains_key(p) && (failed.contains(p) || reported.contains(p)) {
            out.push((
                "marked-proxy-allocated".into(),
                format!("{:?} allocated proxy {} which was failed/reported", op, p),
            ));
        }
    }
    let addr = match op {
        Op::Failover { addr } => addr,
        _ => return out,
    };
    // the takeover is also applied when no replacement proxy is available (the call then reports
    // NO_AVAILABLE_RESOURCE after having changed the store): that is a failover, too
    // NO_AVAILABLE_RESOURCE is an answer about the *replacement*, not a refusal to fail over: the
    // property promises the promotion whenever the partner is healthy and speaks of a "failed,
    // unreplaced proxy" afterwards.  A call that answers so and leaves the failed proxy's nodes
    // masters has not failed over (seed S-C06-3: the storage layer discarded the takeover).
    let took_over = res.starts_with("OK") || res.starts_with("NO_AVAILABLE_RESOURCE");
    if !took_over {
        return out;
    }
    let store_unchanged = pre_s.get("clusters") == post_s.get("clusters");
    let (cname, ci, part) = match pre_mem.get(addr).and_then(|v| v.first()) {
        Some(x) => x.clone(),
        None => return out,
    };
    let chs = chunks_of(pre_s, &cname);
    let partner = chs[ci].proxies[1 - part].clone();
    let partner_healthy = !failed.contains(&partner) && !reported.contains(&partner);
    let (prec, postc) = match (pre.clusters.get(&cname), post.clusters.get(&cname)) {
        (Some(a), Some(b)) => (a, b),
        _ => return out,
    };
    if !partner_healthy {
        return out;
    }
    let tag = format!("limit{}", pre.limit);
    // ownership transfer
    for n in prec.get_nodes() {
        if n.get_role() != Role::Master {
            continue;
        }
        let before = node_ranges(prec, n.get_address()).unwrap_or_default();
        if n.get_proxy_address() == addr {
            let peer = match n.get_repl_meta().get_peers().first() {
                Some(p) => p,
                None => {
                    out.push(("master-without-peer".into(), format!("{} has no peer", n.get_address())));
                    continue;
                }
            };
            let after = node_ranges(postc, &peer.node_address);
            let after_role = postc.get_node(&peer.node_address).map(|x| x.get_role());
            if after_role != Some(Role::Master) || after.as_ref() != Some(&before) {
                out.push((
                    if store_unchanged && res.starts_with("NO_AVAILABLE_RESOURCE") { "failover-without-spare-proxy-promoted-nothing".into() } else { "replica-did-not-take-over".into() },
                    format!(
                        "[{}] failover {}: master {} owned {:?}; its replica {} now role {:?} owns {:?}",
                        tag, addr, n.get_address(), before, peer.node_address, after_role, after
                    ),
                ));
            }
        } else {
            let after = node_ranges(postc, n.get_address());
            let after_role = postc.get_node(n.get_address()).map(|x| x.get_role());
            if after_role != Some(Role::Master) || after.as_ref() != Some(&before) {
                out.push((
                    "bystander-ownership-changed".into(),
                    format!(
                        "[{}] failover {}: unrelated master {} owned {:?}, now role {:?} owns {:?}",
                        tag, addr, n.get_address(), before, after_role, after
                    ),
                ));
            }
        }
    }
    // post-state structure
    let post_failed = failed_set(post_s);
    for n in postc.get_nodes() {
        if n.get_role() == Role::Master && post_failed.contains(n.get_proxy_address()) {
            // only a violation when the partner is healthy (otherwise nobody can take over)
            let pp = n.get_repl_meta().get_peers().first().map(|p| p.proxy_address.clone()).unwrap_or_default();
            if !post_failed.contains(&pp) && !reported_set(post_s).contains(&pp) {
                out.push((
                    "master-on-failed-proxy".into(),
                    format!("[{}] after failover {}: node {} on failed proxy {} is master", tag, addr, n.get_address(), n.get_proxy_address()),
                ));
            }
        }
        let peers = n.get_repl_meta().get_peers();
        if peers.len() != 1 {
            out.push(("peer-count".into(), format!("node {} has {} peers", n.get_address(), peers.len())));
            continue;
        }
        let p = &peers[0];
        match postc.get_node(&p.node_address) {
            None => out.push(("peer-missing".into(), format!("peer {} of {} missing", p.node_address, n.get_address()))),
            Some(pn) => {
                let back = pn.get_repl_meta().get_peers().first();
                let mutual = back.map(|b| b.node_address == n.get_address() && b.proxy_address == n.get_proxy_address()).unwrap_or(false);
                if !mutual
                    || pn.get_proxy_address() != p.proxy_address
                    || pn.get_role() == n.get_role()
                    || pn.get_proxy_address() == n.get_proxy_address()
                {
                    out.push((
                        "peer-records-inconsistent".into(),
                        format!(
                            "[{}] after failover {}: node {}({:?}@{}) peer {}({:?}@{}) mutual={}",
                            tag, addr, n.get_address(), n.get_role(), n.get_proxy_address(),
                            pn.get_address(), pn.get_role(), pn.get_proxy_address(), mutual
                        ),
                    ));
                }
                // same chunk: both proxies are the two proxies of one chunk
                let pc = chunks_of(post_s, &cname);
                let same_chunk = pc.iter().any(|ch| ch.proxies.contains(&n.get_proxy_address().to_string()) && ch.proxies.contains(&pn.get_proxy_address().to_string()));
                if !same_chunk {
                    out.push(("peer-in-other-chunk".into(), format!("node {} peer {} not in one chunk", n.get_address(), pn.get_address())));
                }
            }
        }
    }
    // re-issued migrations
    let mut pre_meta: BTreeMap<(String, u8), undermoon::common::cluster::MigrationMeta> = BTreeMap::new();
    for n in prec.get_nodes() {
        for s in n.get_slots() {
            if let Some(m) = s.tag.get_migration_meta() {
                pre_meta.insert((format!("{}", s.get_range_list()), s.tag.is_migrating() as u8), m.clone());
            }
        }
    }
    for n in postc.get_nodes() {
        for s in n.get_slots() {
            if let Some(m) = s.tag.get_migration_meta() {
                if let Some(pm) = pre_meta.get(&(format!("{}", s.get_range_list()), s.tag.is_migrating() as u8)) {
                    let moved = pm.src_node_address != m.src_node_address
                        || pm.dst_node_address != m.dst_node_address
                        || pm.src_proxy_address != m.src_proxy_address
                        || pm.dst_proxy_address != m.dst_proxy_address;
                    if moved && m.epoch <= pm.epoch {
                        out.push((
                            "moved-migration-not-reissued".into(),
                            format!(
                                "[{}] failover {}: migration {} moved {}->{} => {}->{} but epoch {} -> {}",
                                tag, addr, s.get_range_list(), pm.src_node_address, pm.dst_node_address,
                                m.src_node_address, m.dst_node_address, pm.epoch, m.epoch
                            ),
                        ));
                    }
                }
            }
        }
    }
    // replacement was free and healthy
    if let Some(newp) = res.strip_prefix("OK:") {
        if proxy_cluster(pre_s, newp).is_some() || failed.contains(newp) || reported.contains(newp) {
            out.push(("replacement-not-free-healthy".into(), format!("replacement {} was not free+healthy", newp)));
        }
    }
    out
}

// ------------------------------------------------------------------------------------------------
// C10: scaling

fn master_slot_counts(c: &Cluster) -> Vec<(usize, bool)> {
    // per master node: (stable+migrating-out slots, any tagged)
    c.get_nodes()
        .iter()
        .filter(|n| n.get_role() == Role::Master)
        .map(|n| {
            let mut cnt = 0;
            let mut tagged = false;
            for s in n.get_slots() {
                match s.tag {
                    SlotRangeTag::None => cnt += slot_count(s),
                    SlotRangeTag::Migrating(_) => {
                        cnt += slot_count(s);
                        tagged = true
                    }
                    SlotRangeTag::Importing(_) => tagged = true,
                }
            }
            (cnt, tagged)
        })
        .collect()
}

fn c10_state(snap: &Value, v: &Views, v0: &Views) -> Vec<(String, String)> {
    let mut out = vec![];
    for (name, c) in &v.clusters {
        let chs = chunks_of(snap, name);
        let store_migrating = chs.iter().any(|ch| ch.n_mig[0] + ch.n_mig[1] > 0);
        let counts = master_slot_counts(c);
        let view_migrating = counts.iter().any(|x| x.1);
        // cluster info agrees with the view
        if let Some(info) = v.infos.get(name) {
            let nn = info.get("node_number").and_then(|x| x.as_u64()).unwrap_or(0) as usize;
            let nws = info.get("node_number_with_slots").and_then(|x| x.as_u64()).unwrap_or(0) as usize;
            let im = info.get("is_migrating").and_then(|x| x.as_bool()).unwrap_or(false);
            let view_nws = 2 * c
                .get_nodes()
                .iter()
                .filter(|n| n.get_slots().iter().any(|s| s.tag.is_stable()))
                .count();
            if nn != c.get_nodes().len() || im != view_migrating || nws != view_nws {
                out.push((
                    "cluster-info-disagrees".into(),
                    format!(
                        "cluster {} limit {}: info (nodes {}, with slots {}, migrating {}) vs view (nodes {}, with stable slots {}, migrating {})",
                        name, v.limit, nn, nws, im, c.get_nodes().len(), view_nws, view_migrating
                    ),
                ));
            }
        }
        if store_migrating {
            // progress: something is served under every limit
            if !view_migrating {
                out.push((
                    "migration-pending-but-nothing-served".into(),
                    format!("cluster {}: store has migrations but view under limit {} serves none", name, v.limit),
                ));
            }
        } else {
            // quiescent: balanced full partition, slot-less chunks trailing
            let c0 = match v0.clusters.get(name) {
                Some(c) => c,
                None => continue,
            };
            let counts0 = master_slot_counts(c0);
            let with: Vec<usize> = counts0.iter().map(|x| x.0).filter(|n| *n > 0).collect();
            let total: usize = with.iter().sum();
            let (mx, mn) = (with.iter().max().cloned().unwrap_or(0), with.iter().min().cloned().unwrap_or(0));
            if total != SLOTS || mx - mn > 1 {
                out.push((
                    "unbalanced-after-scaling".into(),
                    format!("cluster {} quiescent with master slot counts {:?}", name, counts0.iter().map(|x| x.0).collect::<Vec<_>>()),
                ));
            }
            let mut seen_empty = false;
            for ch in &chs {
                let empty = !ch.has_stable[0] && !ch.has_stable[1];
                let partial = ch.has_stable[0] != ch.has_stable[1];
                if partial || (seen_empty && !empty) {
                    out.push((
                        "slotless-chunks-not-trailing".into(),
                        format!("cluster {} quiescent chunk slot layout {:?}", name, chs.iter().map(|c| c.has_stable).collect::<Vec<_>>()),
                    ));
                    break;
                }
                if empty {
                    seen_empty = true;
                }
            }
        }
    }
    out
}

fn c10_edge(op: &Op, res: &str, pre: &Value, post: &Value) -> Vec<(String, String)> {
    let mut out = vec![];
    let name = match op {
        Op::AutoAddNodes { name, .. }
        | Op::AutoScaleUp { name, .. }
        | Op::MigrateSlots { name }
        | Op::ScaleDown { name, .. }
        | Op::AutoChange { name, .. }
        | Op::ChangeConfig { name, .. }
        | Op::DeleteFree { name } => name.clone(),
        Op::Commit { task } => {
            let t: undermoon::common::cluster::MigrationTaskMeta = serde_json::from_str(task).unwrap();
            t.cluster_name.to_string()
        }
        _ => return out,
    };
    let pre_ch = chunks_of(pre, &name);
    if pre_ch.is_empty() {
        return out;
    }
    let migrating = pre_ch.iter().any(|ch| ch.n_mig[0] + ch.n_mig[1] > 0);
    let n_tasks = |chs: &Vec<Chunk>| chs.iter().map(|c| c.n_mig[0] + c.n_mig[1]).sum::<usize>();
    match op {
        Op::Commit { .. } => {
            if res == "OK" {
                let post_ch = chunks_of(post, &name);
                if n_tasks(&post_ch) + 2 != n_tasks(&pre_ch) {
                    out.push((
                        "commit-did-not-retire-one-migration".into(),
                        format!("{:?}: migration records {} -> {}", op, n_tasks(&pre_ch), n_tasks(&post_ch)),
                    ));
                }
            }
        }
        Op::DeleteFree { .. } => {
            if migrating {
                if res.starts_with("OK") || without_global(pre) != without_global(post) {
                    out.push(("request-not-refused-while-migrating:delete-free".into(), format!("{:?} -> {} during migration", op, res)));
                }
            } else if res == "OK" {
                let post_set: BTreeSet<String> = chunks_of(post, &name).iter().map(|c| c.proxies[0].clone()).collect();
                for ch in &pre_ch {
                    let empty = !ch.has_stable[0] && !ch.has_stable[1] && ch.n_mig[0] + ch.n_mig[1] == 0;
                    let removed = !post_set.contains(&ch.proxies[0]);
                    if empty != removed {
                        out.push((
                            "delete-free-removed-wrong-chunks".into(),
                            format!("{:?}: chunk {:?} empty={} removed={}", op, ch.proxies, empty, removed),
                        ));
                    }
                }
            }
        }
        Op::ScaleDown { n, .. } => {
            if migrating && (res.starts_with("OK") || without_global(pre) != without_global(post)) {
                out.push(("request-not-refused-while-migrating:scale-down".into(), format!("{:?} -> {} during migration", op, res)));
            }
            if res == "OK" {
                let post_ch = chunks_of(post, &name);
                for (i, ch) in post_ch.iter().enumerate() {
                    let trailing = i >= n / 4;
                    if trailing && (ch.has_stable[0] || ch.has_stable[1]) {
                        out.push(("scale-in-left-stable-slots-on-trailing-chunk".into(), format!("{:?}: chunk {} keeps stable slots", op, i)));
                    }
                }
            }
        }
        Op::AutoAddNodes { .. } | Op::AutoScaleUp { .. } | Op::MigrateSlots { .. } | Op::ChangeConfig { .. } | Op::AutoChange { .. } => {
            if migrating && (res.starts_with("OK") || without_global(pre) != without_global(post)) {
                out.push((
                    format!("request-not-refused-while-migrating:{}", match op {
                        Op::AutoAddNodes { .. } => "auto-add-nodes",
                        Op::AutoScaleUp { .. } => "auto-scale-up",
                        Op::MigrateSlots { .. } => "migrate-slots",
                        Op::ChangeConfig { .. } => "change-config",
                        _ => "auto-change",
                    }),
                    format!("{:?} -> {} during migration (store changed: {})", op, res, without_global(pre) != without_global(post)),
                ));
            }
            // a resize request may be answered "nothing to do" only when the cluster already has
            // exactly the requested number of slot-owning nodes (lingering slot-less chunks do not count)
            if let Op::AutoChange { n, .. } = op {
                if !migrating && res == "OK:0" {
                    let with_slots = pre_ch.iter().filter(|c| c.has_stable[0] || c.has_stable[1]).count() * 4;
                    if with_slots != *n {
                        out.push((
                            "resize-answered-nothing-to-do-but-cluster-not-at-target".into(),
                            format!("{:?} -> NoOp while {} nodes own slots ({} chunks in the cluster); the service then skips the migration phase and the cluster never reaches {}", op, with_slots, pre_ch.len(), n),
                        ));
                    }
                }
            }
        }
        _ => {}
    }
    out
}

// ------------------------------------------------------------------------------------------------
// alphabet

fn enabled_ops(cfg: &RunCfg, st: &State) -> Vec<Op> {
    let snap = &st.snap;
    let mut ops = vec![];
    let registered: BTreeSet<String> = proxy_addrs(snap).into_iter().collect();
    let names = cluster_names(snap);
    let general = cfg.profile == Profile::General;
    // tasks: served under the run's limit and hidden ones (limit 0)
    let mut tasks: BTreeSet<String> = BTreeSet::new();
    for lim in [cfg.broker.migration_limit, 0] {
        let b = Broker::from_snapshot(&cfg.broker, lim, snap).expect("restore");
        for c in &names {
            if let Some(cl) = b.cluster(c) {
                for t in migrating_tasks(&cl) {
                    tasks.insert(serde_json::to_string(&t).unwrap());
                }
            }
        }
        if !general {
            break; // scaling profile: only what is really served
        }
    }
    for t in tasks {
        ops.push(Op::Commit { task: t });
    }
    for t in &st.stale {
        ops.push(Op::Commit { task: t.clone() });
    }
    for c in &cfg.clusters {
        if !names.contains(c) {
            if general {
                for n in &cfg.sizes {
                    ops.push(Op::AddCluster { name: c.clone(), n: *n });
                }
            }
            continue;
        }
        if general {
            ops.push(Op::AutoAddNodes { name: c.clone(), n: 4 });
            ops.push(Op::MigrateSlots { name: c.clone() });
            for n in &cfg.sizes {
                ops.push(Op::ScaleDown { name: c.clone(), n: *n });
            }
            ops.push(Op::RemoveCluster { name: c.clone() });
            ops.push(Op::ChangeConfig { name: c.clone(), k: "compression_strategy".into(), v: "allow_all".into() });
            ops.push(Op::ChangeConfig { name: c.clone(), k: "compression_strategy".into(), v: "bogus".into() });
            // requests with one valid, changing field and one invalid field, in both roles, so that
            // whatever order the fields are visited in, one of them has the valid field first:
            // a refused request must not be half applied
            ops.push(Op::ChangeConfig { name: c.clone(), k: "compression_strategy;migration_scan_count".into(), v: "set_get_only;0".into() });
            ops.push(Op::ChangeConfig { name: c.clone(), k: "compression_strategy;migration_scan_count".into(), v: "bogus;777".into() });
        } else {
            for n in &cfg.sizes {
                ops.push(Op::AutoChange { name: c.clone(), n: *n });
                ops.push(Op::AutoScaleOut { name: c.clone(), n: *n });
                ops.push(Op::ScaleDown { name: c.clone(), n: *n });
            }
            ops.push(Op::AutoAddNodes { name: c.clone(), n: 4 });
            ops.push(Op::AutoScaleUp { name: c.clone(), n: 8 });
            ops.push(Op::MigrateSlots { name: c.clone() });
            ops.push(Op::ChangeConfig { name: c.clone(), k: "compression_strategy".into(), v: "set_get_only".into() });
        }
        ops.push(Op::Balance { name: c.clone() });
        ops.push(Op::DeleteFree { name: c.clone() });
    }
    let mem = members(snap);
    for (addr, host, index) in cfg.layout.proxies() {
        if registered.contains(&addr) {
            if general || mem.contains_key(&addr) {
                ops.push(Op::Failover { addr: addr.clone() });
            }
            if general {
                ops.push(Op::AddFailure { addr: addr.clone(), reporter: "r1".into() });
                ops.push(Op::RemoveProxy { addr: addr.clone() });
                // probe: the address registers again with other nodes (judged, never expanded)
                ops.push(Op::AddProxyAlt { addr: addr.clone(), host: host.clone(), index });
                // re-registration (clears failed mark / reports)
                if failed_set(snap).contains(&addr) || reported_set(snap).contains(&addr) {
                    ops.push(Op::AddProxy { addr: addr.clone(), host: host.clone(), index });
                }
            }
        } else if general {
            ops.push(Op::AddProxy { addr, host, index });
        }
    }
    if general {
        ops.push(Op::Failover { addr: "nowhere:1".into() });
    }
    ops
}

// ------------------------------------------------------------------------------------------------
// one transition (runs on a fresh thread)

struct Edge {
    op: Op,
    res: String,
    next: State,
    pre_conc: Value,
    post_conc: Value,
    trivial: bool,
}

fn step(cfg: &RunCfg, st: &State, op: &Op, which: u8) -> Edge {
    let now = chrono::Utc::now().timestamp();
    let (conc, f) = concretise(st, which, now);
    let op_c = match op {
        Op::Commit { task } => Op::Commit { task: map_task_epoch(task, &*f) },
        o => o.clone(),
    };
    let b = Broker::from_snapshot(&cfg.broker, cfg.broker.migration_limit, &conc).expect("restore");
    // tasks served before (for stale tracking)
    let mut stale_c: Vec<String> = st.stale.iter().map(|t| map_task_epoch(t, &*f)).collect();
    let served_before: Vec<String> = if cfg.stale {
        let mut v = vec![];
        for c in cluster_names(&conc) {
            if let Some(cl) = b.cluster(&c) {
                for t in migrating_tasks(&cl) {
                    v.push(serde_json::to_string(&t).unwrap());
                }
            }
        }
        v
    } else {
        vec![]
    };
    let res = b.apply(&op_c);
    let post = b.snapshot();
    if cfg.stale {
        let mut still: BTreeSet<String> = BTreeSet::new();
        let b0 = Broker::from_snapshot(&cfg.broker, 0, &post).expect("restore");
        for c in cluster_names(&post) {
            if let Some(cl) = b0.cluster(&c) {
                for t in migrating_tasks(&cl) {
                    still.insert(serde_json::to_string(&t).unwrap());
                }
            }
        }
        for t in served_before {
            if !still.contains(&t) && !stale_c.contains(&t) {
                stale_c.push(t);
            }
        }
        // a stale task that was just committed successfully again would be interesting, keep it
        while stale_c.len() > 2 {
            stale_c.remove(0);
        }
    }
    let mut pre_cmp = without_global(&conc);
    set_failure_times(&mut pre_cmp, 0);
    let mut post_cmp = without_global(&post);
    set_failure_times(&mut post_cmp, 0);
    let trivial = pre_cmp == post_cmp;
    let next = canonicalise(post.clone(), stale_c);
    Edge {
        op: op.clone(),
        res,
        next,
        pre_conc: conc,
        post_conc: post,
        trivial,
    }
}

// ------------------------------------------------------------------------------------------------
// search

#[derive(Default)]
struct Stats {
    states: usize,
    transitions: usize,
    nontrivial: usize,
    max_depth_completed: usize,
    exhausted: bool,
    cap_hit: bool,
    panics: usize,
    results: BTreeMap<String, usize>,
    ops: BTreeMap<String, usize>,
    samples: Vec<Value>,
    conc_mismatch: usize,
    imax_broken: usize,
    seed_new_successors: usize,
}

struct Found {
    key: String,
    desc: String,
    replay: Value,
    depth: usize,
}

fn op_kind(op: &Op) -> String {
    let s = format!("{:?}", op);
    s.split(|c| c == ' ' || c == '{').next().unwrap_or("").to_string()
}

struct EdgeOut {
    op: Op,
    res: String,
    next: State,
    next_key: u128,
    trivial: bool,
    viol: Vec<(String, String)>,
    conc_mismatch: bool,
    panicked: bool,
    pre_conc: Value,
    post_conc: Value,
}

struct Expansion {
    state_viol: Vec<(String, String)>,
    imax_broken: bool,
    edges: Vec<EdgeOut>,
}

fn edge_oracles(cfg: &RunCfg, prop: &str, e: &Edge) -> Vec<(String, String)> {
    let mut viol = vec![];
    match prop {
        "C04" => {
            if e.trivial {
                if global_epoch(&e.post_conc) < global_epoch(&e.pre_conc) {
                    viol.push(("global-epoch-decreased".into(), "global epoch decreased".into()));
                }
            } else {
                for l in [0u64, 1, 2] {
                    let a = views_of(&cfg.broker, &e.pre_conc, l);
                    let b = views_of(&cfg.broker, &e.post_conc, l);
                    viol.extend(c04_edge(&a, &b));
                }
            }
        }
        "C12" => viol.extend(c12_edge(&e.op, &e.res, &e.pre_conc, &e.post_conc)),
        "C06" => {
            let is_fo = matches!(e.op, Op::Failover { .. });
            let ls: Vec<u64> = if is_fo { vec![0, 1, 2, 3] } else { vec![0] };
            if is_fo || !e.trivial {
                for l in ls {
                    let a = views_of(&cfg.broker, &e.pre_conc, l);
                    let b = views_of(&cfg.broker, &e.post_conc, l);
                    viol.extend(c06_edge(&e.op, &e.res, &e.pre_conc, &e.post_conc, &a, &b));
                }
            }
        }
        "C10" => viol.extend(c10_edge(&e.op, &e.res, &e.pre_conc, &e.post_conc)),
        _ => {}
    }
    viol
}

fn state_oracles(cfg: &RunCfg, prop: &str, snap: &Value) -> Vec<(String, String)> {
    let mut out = vec![];
    let limits = [0u64, 1, 2, 3];
    match prop {
        "C01" => {
            for l in limits {
                out.extend(c01_state(&views_of(&cfg.broker, snap, l)));
            }
        }
        "C12" => out.extend(c12_state(snap, &views_of(&cfg.broker, snap, cfg.broker.migration_limit))),
        "C10" => {
            let v0 = views_of(&cfg.broker, snap, 0);
            for l in limits {
                out.extend(c10_state(snap, &views_of(&cfg.broker, snap, l), &v0));
            }
        }
        _ => {}
    }
    out
}

/// The successor computation for one state under one epoch concretisation; always executed as
/// a whole on a fresh thread with a given hash seed, by the search and by `--replay` alike,
/// hence deterministic.  Oracles run only after all steps, so the hash-key sequence seen by the
/// broker code is the same for every property and for both concretisations.
fn steps_of(cfg: &RunCfg, st: &State, which: u8) -> Vec<(Op, Option<Edge>)> {
    // a query API that panics on this state (possible only after the store was corrupted by an
    // earlier operation) is reported by the state oracles; nothing can be expanded then
    let ops = match std::panic::catch_unwind(std::panic::AssertUnwindSafe(|| enabled_ops(cfg, st))) {
        Ok(o) => o,
        Err(_) => return vec![],
    };
    let mut v = vec![];
    for op in ops {
        let e = std::panic::catch_unwind(std::panic::AssertUnwindSafe(|| step(cfg, st, &op, which))).ok();
        v.push((op, e));
    }
    v
}

fn expand_state(cfg: &RunCfg, prop: &str, st: &State, seed: u64) -> Expansion {
    let (cfg2, st2) = (cfg.clone(), st.clone());
    let other = std::thread::Builder::new()
        .stack_size(16 << 20)
        .spawn(move || {
            det::set_thread_seed(seed);
            steps_of(&cfg2, &st2, 1)
                .into_iter()
                .map(|(_, e)| e.map(|e| (e.res.clone(), h128(&state_key(&e.next)), state_key(&e.next))))
                .collect::<Vec<_>>()
        })
        .expect("spawn");
    det::set_thread_seed(seed);
    let mine = steps_of(cfg, st, 0);
    let theirs = other.join().unwrap_or_default();
    let imax_broken = !imax_ok(&st.snap);
    let mut state_viol = match std::panic::catch_unwind(std::panic::AssertUnwindSafe(|| state_oracles(cfg, prop, &st.snap))) {
        Ok(v) => v,
        Err(_) => vec![("panic-in-query".into(), "a query API (cluster / proxy view) panicked on this state".into())],
    };
    if state_viol.is_empty() && std::panic::catch_unwind(std::panic::AssertUnwindSafe(|| { views_of(&cfg.broker, &st.snap, cfg.broker.migration_limit); views_of(&cfg.broker, &st.snap, 0); })).is_err() {
        state_viol.push(("panic-in-query".into(), "a query API (cluster / proxy view) panicked on this state".into()));
    }
    let mut edges = vec![];
    for (i, (op, e)) in mine.into_iter().enumerate() {
        match e {
            Some(ea) => {
                let viol = std::panic::catch_unwind(std::panic::AssertUnwindSafe(|| edge_oracles(cfg, prop, &ea)))
                    .unwrap_or_else(|_| vec![("panic-in-query".into(), "a query API panicked while evaluating the edge".into())]);
                let mut viol = viol;
                if matches!(op, Op::AddProxyAlt { .. }) {
                    // the successor of a probe is not expanded: evaluate its state oracles here
                    let sv = std::panic::catch_unwind(std::panic::AssertUnwindSafe(|| state_oracles(cfg, prop, &ea.next.snap))).unwrap_or_else(|_| vec![("panic-in-query".into(), "a query API panicked on the state after the operation".into())]);
                    viol.extend(sv.into_iter().map(|(k, d)| (format!("state-after:{}", k), d)));
                }
                let ka = h128(&state_key(&ea.next));
                let mismatch = match theirs.get(i) {
                    // with a cluster epoch ahead of the global epoch the rank argument does not
                    // apply (reported separately), so a mismatch there proves nothing
                    _ if imax_broken => false,
                    Some(Some((res_b, kb, key_b))) => {
                        let m = ka != *kb || ea.res.split(':').next() != res_b.split(':').next();
                        if m {
                            eprintln!("CONC-MISMATCH op {:?}: {} vs {}\nA: {}\nB: {}", op, ea.res, res_b, state_key(&ea.next), key_b);
                        }
                        m
                    }
                    _ => true,
                };
                edges.push(EdgeOut { op, res: ea.res, next: ea.next, next_key: ka, trivial: ea.trivial, viol, conc_mismatch: mismatch, panicked: false, pre_conc: ea.pre_conc, post_conc: ea.post_conc });
            }
            None => {
                let (conc, _) = concretise(st, 0, 0);
                edges.push(EdgeOut { op, res: "PANIC".into(), next: st.clone(), next_key: 0, trivial: true, viol: vec![("panic".into(), "the operation panicked".into())], conc_mismatch: false, panicked: true, pre_conc: conc, post_conc: Value::Null });
            }
        }
    }
    Expansion { state_viol, imax_broken, edges }
}

fn state_replay(cfg: &RunCfg, st: &State, seed: u64, focus: Value) -> Value {
    json!({"cfg": cfg_to_json(cfg), "state": st.snap, "stale": st.stale, "hash_seed": seed, "focus": focus})
}

fn cfg_to_json(cfg: &RunCfg) -> Value {
    json!({
        "layout": cfg.layout, "broker": cfg.broker, "profile": format!("{:?}", cfg.profile), "depth": cfg.depth,
        "clusters": cfg.clusters, "sizes": cfg.sizes, "stale": cfg.stale, "label": cfg.label,
    })
}

fn cfg_from_json(v: &Value) -> RunCfg {
    RunCfg {
        layout: serde_json::from_value(v["layout"].clone()).expect("layout"),
        broker: serde_json::from_value(v["broker"].clone()).expect("broker"),
        profile: if v["profile"].as_str() == Some("Scaling") { Profile::Scaling } else { Profile::General },
        depth: v["depth"].as_u64().unwrap_or(1) as usize,
        clusters: serde_json::from_value(v["clusters"].clone()).expect("clusters"),
        sizes: serde_json::from_value(v["sizes"].clone()).expect("sizes"),
        stale: v["stale"].as_bool().unwrap_or(false),
        init_ops: vec![],
        register_all: true,
        family: None,
        max_states: 0,
        label: v["label"].as_str().unwrap_or("").to_string(),
    }
}

fn run_search(cli: &Cli, cfg: &RunCfg, prop: &str, hash_seeds: u64) -> (Stats, Vec<Found>) {
    let t0 = Instant::now();
    let wall_cap = if cli.thorough() { 3000.0 } else { 200.0 };
    // initial state
    let b = Broker::empty(&cfg.broker);
    if cfg.register_all {
        for (addr, host, index) in cfg.layout.proxies() {
            let r = b.apply(&Op::AddProxy { addr, host, index });
            assert_eq!(r, "OK");
        }
    }
    for op in &cfg.init_ops {
        let r = b.apply(op);
        if !r.starts_with("OK") {
            machinery_error(&format!("init op {:?} of {} -> {}", op, cfg.label, r));
        }
    }
    let init = canonicalise(b.snapshot(), vec![]);
    let seen: Arc<Vec<Mutex<HashSet<u128>>>> = Arc::new((0..64).map(|_| Mutex::new(HashSet::new())).collect());
    seen[(h128(&state_key(&init)) % 64) as usize].lock().unwrap().insert(h128(&state_key(&init)));
    let mut frontier = vec![init];
    let stats = Arc::new(Mutex::new(Stats::default()));
    let found: Arc<Mutex<Vec<Found>>> = Arc::new(Mutex::new(vec![]));
    stats.lock().unwrap().states = 1;
    let workers = std::thread::available_parallelism().map(|n| n.get()).unwrap_or(8).min(16);
    let mut depth = 0;
    // depth d: states at distance d get their state oracles evaluated and are expanded; the
    // states at distance cfg.depth are evaluated (oracles) but not expanded further.
    while !frontier.is_empty() && depth <= cfg.depth {
        let last_level = depth == cfg.depth;
        let next: Arc<Mutex<Vec<State>>> = Arc::new(Mutex::new(vec![]));
        let idx = Arc::new(AtomicUsize::new(0));
        let fr = Arc::new(frontier);
        let mut hs = vec![];
        for _ in 0..workers {
            let (fr, idx, next, seen, stats, found, cfg) = (fr.clone(), idx.clone(), next.clone(), seen.clone(), stats.clone(), found.clone(), cfg.clone());
            let prop = prop.to_string();
            let base_seed = cli.seed;
            hs.push(std::thread::spawn(move || loop {
                let i = idx.fetch_add(1, Ordering::SeqCst);
                if i >= fr.len() {
                    break;
                }
                let st = &fr[i];
                let skey = h128(&state_key(st));
                let mut local = Stats::default();
                let mut lfound: Vec<Found> = vec![];
                let mut succ_keys: Vec<u128> = vec![];
                for hs_i in 0..hash_seeds {
                    let seed = base_seed.wrapping_mul(0x1000_0001).wrapping_add(hs_i).wrapping_add((skey as u64) << 8);
                    let (cfg2, st2, prop2) = (cfg.clone(), st.clone(), prop.clone());
                    let exp = if last_level {
                        det::on_fresh_thread(seed, 16 << 20, move || Expansion {
                            imax_broken: !imax_ok(&st2.snap),
                            state_viol: std::panic::catch_unwind(std::panic::AssertUnwindSafe(|| state_oracles(&cfg2, &prop2, &st2.snap))).unwrap_or_else(|_| vec![("panic-in-query".into(), "a query API panicked".into())]),
                            edges: vec![],
                        })
                    } else {
                        det::on_fresh_thread(seed, 16 << 20, move || expand_state(&cfg2, &prop2, &st2, seed))
                    };
                    let exp = match exp {
                        Ok(e) => e,
                        Err(_) => machinery_error("state expansion thread died"),
                    };
                    if exp.imax_broken {
                        local.imax_broken += 1;
                        if prop == "C04" && hs_i == 0 {
                            lfound.push(Found {
                                key: "state:stored-epoch-ahead-of-global-epoch".into(),
                                desc: "a cluster or migration epoch is greater than the global epoch: the next mutator re-uses that epoch for changed metadata, and removing the cluster serves its proxies the smaller global epoch".into(),
                                replay: state_replay(&cfg, st, seed, json!("imax")),
                                depth,
                            });
                        }
                    }
                    if hs_i == 0 {
                        for (k, d) in exp.state_viol {
                            lfound.push(Found { key: format!("state:{}", k), desc: d, replay: state_replay(&cfg, st, seed, json!("state")), depth });
                        }
                    }
                    for e in exp.edges {
                        if hs_i == 0 {
                            local.transitions += 1;
                            *local.results.entry(e.res.split(':').next().unwrap_or("").to_string()).or_default() += 1;
                            *local.ops.entry(op_kind(&e.op)).or_default() += 1;
                            if !e.trivial {
                                local.nontrivial += 1;
                            }
                        }
                        if e.conc_mismatch {
                            local.conc_mismatch += 1;
                        }
                        if e.panicked {
                            local.panics += 1;
                        }
                        for (k, d) in &e.viol {
                            lfound.push(Found {
                                key: format!("edge:{}:{}", op_kind(&e.op), k),
                                desc: format!("{:?} -> {}: {}", e.op, e.res, d),
                                replay: {
                                    let mut r = state_replay(&cfg, st, seed, json!({"op": op_concrete(&e.op, 0)}));
                                    r["pre"] = e.pre_conc.clone();
                                    r["post"] = e.post_conc.clone();
                                    r["result"] = json!(e.res);
                                    r
                                },
                                depth,
                            });
                        }
                        if e.panicked {
                            continue;
                        }
                        if matches!(e.op, Op::AddProxyAlt { .. }) {
                            // probe operation: the edge was judged (edge oracles of the property and
                            // the state oracles of its successor, see expand_state), the successor
                            // is not part of the explored graph
                            continue;
                        }
                        if !succ_keys.contains(&e.next_key) {
                            if hs_i > 0 {
                                local.seed_new_successors += 1;
                            }
                            succ_keys.push(e.next_key);
                            if seen[(e.next_key % 64) as usize].lock().unwrap().insert(e.next_key) {
                                local.states += 1;
                                next.lock().unwrap().push(e.next.clone());
                            }
                        }
                        if local.samples.is_empty() && !e.trivial && i % 211 == 0 {
                            local.samples.push(json!({"depth": depth, "op": format!("{:?}", e.op), "result": e.res}));
                        }
                    }
                }
                let mut s = stats.lock().unwrap();
                s.states += local.states;
                s.transitions += local.transitions;
                s.nontrivial += local.nontrivial;
                s.panics += local.panics;
                s.conc_mismatch += local.conc_mismatch;
                s.imax_broken += local.imax_broken;
                s.seed_new_successors += local.seed_new_successors;
                for (k, v) in local.results {
                    *s.results.entry(k).or_default() += v;
                }
                for (k, v) in local.ops {
                    *s.ops.entry(k).or_default() += v;
                }
                if s.samples.len() < 6 {
                    s.samples.extend(local.samples);
                }
                drop(s);
                if !lfound.is_empty() {
                    found.lock().unwrap().extend(lfound);
                }
            }));
        }
        for h in hs {
            h.join().expect("worker");
        }
        let mut nf = std::mem::take(&mut *next.lock().unwrap());
        nf.sort_by_cached_key(|s| h128(&state_key(s)));
        let mut s = stats.lock().unwrap();
        s.max_depth_completed = depth;
        if cfg.family.is_none() {
            eprintln!(
                "[{}] {} level {} done: states {} transitions {} next frontier {} ({:.0}s)",
                prop, cfg.label, depth, s.states, s.transitions, nf.len(), t0.elapsed().as_secs_f64()
            );
        }
        if nf.is_empty() && !last_level {
            s.exhausted = true;
        }
        let over = s.states > cfg.max_states || t0.elapsed().as_secs_f64() > wall_cap;
        drop(s);
        frontier = nf;
        depth += 1;
        if over && !frontier.is_empty() && depth <= cfg.depth {
            stats.lock().unwrap().cap_hit = true;
            // the discovered-but-unexpanded states still get their state oracles evaluated
            // at the next loop iteration only if it is the last level; report the cap instead.
            break;
        }
    }
    let s = std::mem::take(&mut *stats.lock().unwrap());
    let f = std::mem::take(&mut *found.lock().unwrap());
    (s, f)
}

fn op_concrete(op: &Op, which: u8) -> Value {
    let f = move |r: u64| if which == 0 { r + 1 } else { 7 * (r + 1) + 3 };
    let o = match op {
        Op::Commit { task } => Op::Commit { task: map_task_epoch(task, &f) },
        o => o.clone(),
    };
    serde_json::to_value(&o).unwrap()
}

// ------------------------------------------------------------------------------------------------
// replay of one recorded edge / state without the explorer

fn replay(cli: &Cli, path: &str) -> i32 {
    let body: Value = serde_json::from_str(&std::fs::read_to_string(path).expect("read replay")).expect("json");
    let prop = body["property"].as_str().unwrap_or(&cli.prop).to_string();
    let want_key = body["key"].as_str().unwrap_or("").to_string();
    let rp = body["replay"].clone();
    let cfg = cfg_from_json(&rp["cfg"]);
    let st = State { snap: rp["state"].clone(), stale: serde_json::from_value(rp["stale"].clone()).unwrap_or_default() };
    let seed = rp["hash_seed"].as_u64().unwrap_or(1);
    let run = || -> Vec<(String, String)> {
        let (cfg2, st2, prop2) = (cfg.clone(), st.clone(), prop.clone());
        let exp = det::on_fresh_thread(seed, 16 << 20, move || expand_state(&cfg2, &prop2, &st2, seed)).expect("expansion");
        let mut out = vec![];
        if exp.imax_broken && prop == "C04" {
            out.push(("state:stored-epoch-ahead-of-global-epoch".to_string(), "a stored epoch is greater than the global epoch".to_string()));
        }
        for (k, d) in exp.state_viol {
            out.push((format!("state:{}", k), d));
        }
        for e in exp.edges {
            for (k, d) in e.viol {
                out.push((format!("edge:{}:{}", op_kind(&e.op), k), format!("{:?} -> {}: {}", e.op, e.res, d)));
            }
        }
        out
    };
    let a = run();
    let b = run();
    if a != b {
        machinery_error("replay is not deterministic");
    }
    let hits: Vec<&(String, String)> = a.iter().filter(|(k, _)| *k == want_key).collect();
    if hits.is_empty() {
        println!("replay: no violation with key {} on this artefact ({} other findings)", want_key, a.len());
        0
    } else {
        for (k, d) in hits.iter().take(3) {
            println!("replay: {} {}", k, d);
        }
        println!("VIOLATION property={} replay={}", prop, path);
        1
    }
}

fn configs(cli: &Cli, prop: &str) -> Vec<RunCfg> {
    let thorough = cli.thorough();
    let mut v = vec![];
    let bc = |ordered: bool, limit: u64| BrokerCfg { ordered, migration_limit: limit, failure_quorum: 1, failure_ttl: 100000 };
    let mk = |layout: &[usize], ordered: bool, limit: u64, depth: usize, profile: Profile, sizes: Vec<usize>, init: Vec<Op>, stale: bool, max_states: usize| {
        let l = if ordered { Layout::new(&vec![1; layout.iter().sum()]) } else { Layout::new(layout) };
        RunCfg {
            label: format!("{:?}/layout {}/ordered {}/limit {}/init {}/depth {}", profile, l.name(), ordered, limit, init.iter().map(op_kind).collect::<Vec<_>>().join("+"), depth),
            layout: l,
            broker: bc(ordered, limit),
            profile,
            depth,
            clusters: vec!["c1".into()],
            sizes,
            stale,
            init_ops: init,
            register_all: true,
            family: None,
            max_states,
        }
    };
    if prop == "C10" {
        let c = |n: usize| vec![Op::AddCluster { name: "c1".into(), n }];
        if thorough {
            for lim in [0u64, 1, 2] {
                v.push(mk(&[2, 2, 2, 2], false, lim, 40, Profile::Scaling, vec![4, 8, 12], c(4), false, 400_000));
                v.push(mk(&[3, 3, 2], false, lim, 40, Profile::Scaling, vec![4, 8, 12], c(8), false, 400_000));
            }
            v.push(mk(&[1; 8], true, 1, 40, Profile::Scaling, vec![4, 8, 12], c(4), false, 400_000));
            v.push(mk(&[2, 2, 2, 2, 2], false, 1, 40, Profile::Scaling, vec![4, 8, 12, 16], c(12), false, 400_000));
        } else {
            v.push(mk(&[2, 2, 2], false, 1, 12, Profile::Scaling, vec![4, 8], c(4), false, 8_000));
            v.push(mk(&[2, 2, 2], false, 0, 12, Profile::Scaling, vec![4, 8], c(8), false, 8_000));
            v.push(mk(&[1; 6], true, 1, 12, Profile::Scaling, vec![4, 8], c(4), false, 8_000));
            // a scale-in that removes two chunks: one source chunk can be drained while the other
            // still has uncommitted tasks (seed S-C10-3)
            v.push(mk(&[2, 2, 2], false, 0, 4, Profile::Scaling, vec![4, 12], c(12), false, 8_000));
        }
        return v;
    }
    let c1 = || "c1".to_string();
    let mid_out = || vec![Op::AddCluster { name: c1(), n: 4 }, Op::AutoAddNodes { name: c1(), n: 4 }, Op::MigrateSlots { name: c1() }];
    let mid_in = || vec![Op::AddCluster { name: c1(), n: 8 }, Op::ScaleDown { name: c1(), n: 4 }];
    let created = || vec![Op::AddCluster { name: c1(), n: 4 }];
    if thorough {
        for (layout, depth) in [(&[2usize, 2][..], 8usize), (&[2, 2, 2][..], 6), (&[1, 1, 1, 1][..], 8), (&[3, 2, 1][..], 6), (&[2, 2, 2, 2][..], 5)] {
            for lim in [0u64, 1, 2] {
                v.push(mk(layout, false, lim, depth, Profile::General, vec![4, 8], vec![], lim == 1, 400_000));
            }
        }
        for lim in [0u64, 1, 2] {
            v.push(mk(&[2, 2, 2], false, lim, 7, Profile::General, vec![4, 8], mid_out(), true, 400_000));
            v.push(mk(&[2, 2, 2], false, lim, 7, Profile::General, vec![4, 8], mid_in(), true, 400_000));
            v.push(mk(&[3, 3, 2], false, lim, 6, Profile::General, vec![4, 8, 12], mid_out(), true, 400_000));
            v.push(mk(&[2, 2, 2, 2], false, lim, 6, Profile::General, vec![4, 8, 12], created(), true, 400_000));
        }
        v.push(mk(&[1; 6], true, 1, 7, Profile::General, vec![4, 8], vec![], true, 400_000));
        v.push(mk(&[1; 6], true, 1, 7, Profile::General, vec![4, 8], mid_out(), true, 400_000));
        v.push(mk(&[1; 4], true, 0, 8, Profile::General, vec![4, 8], vec![], false, 400_000));
        for lim in [0u64, 1] {
            v.push(mk(&[2, 2], false, lim, 6, Profile::General, vec![4, 8], mid_out(), true, 400_000));
            v.push(mk(&[1, 1, 1, 1], false, lim, 6, Profile::General, vec![4, 8], mid_out(), true, 400_000));
        }
    } else {
        v.push(mk(&[2, 2], false, 1, 4, Profile::General, vec![4, 8], vec![], true, 60_000));
        v.push(mk(&[2, 2, 2], false, 1, 4, Profile::General, vec![4, 8], mid_out(), true, 60_000));
        v.push(mk(&[2, 2, 2], false, 0, 4, Profile::General, vec![4, 8], mid_in(), false, 60_000));
        v.push(mk(&[2, 2, 2], false, 2, 3, Profile::General, vec![4, 8], created(), false, 60_000));
        v.push(mk(&[1; 6], true, 1, 4, Profile::General, vec![4, 8], mid_out(), false, 60_000));
        // every proxy in use (no spare to replace a failed one) while a migration runs
        v.push(mk(&[2, 2], false, 1, 3, Profile::General, vec![4, 8], mid_out(), true, 60_000));
        v.push(mk(&[1, 1, 1, 1], false, 0, 3, Profile::General, vec![4, 8], mid_out(), false, 60_000));
    }
    if prop == "C12" || prop == "C06" {
        // C12 needs the mixed free-proxy vectors of the three-chunk tables (seed S-C12-1); for C06
        // the trimmed family is enough (S-C06-1, S-C06-2) and keeps the quick tier short
        v.extend(constructed_family(thorough, prop == "C06"));
    }
    if prop == "C12" {
        v.extend(same_host_family(thorough));
    }
    v
}

/// "Start from non-initial states": every link table of up to `k` chunks over `H` hosts x every
/// free-proxy vector, built chunk by chunk through the real API (register exactly two proxies on
/// the wanted hosts, then create / extend), followed by one exhaustive step (every failover,
/// report, removal, ...).  Reaches the skewed histories a BFS from a fully registered layout
/// cannot reach within its depth.
fn constructed_family(thorough: bool, trim: bool) -> Vec<RunCfg> {
    let hosts = 3usize;
    let pairs: Vec<(usize, usize)> = vec![(0, 1), (0, 2), (1, 2)];
    let kmax = 3usize;
    let mut out = vec![];
    let mut chunk_lists: Vec<Vec<(usize, usize)>> = vec![];
    for k in 1..=kmax {
        let total = pairs.len().pow(k as u32);
        for code in 0..total {
            let mut x = code;
            let mut l = vec![];
            for _ in 0..k {
                l.push(pairs[x % pairs.len()]);
                x /= pairs.len();
            }
            chunk_lists.push(l);
        }
    }
    let free_max = if thorough { 2 } else { 1 };
    let free_vecs: Vec<Vec<usize>> = {
        let mut v = vec![];
        let total = (free_max + 1usize).pow(hosts as u32);
        for code in 0..total {
            let mut x = code;
            let mut f = vec![];
            for _ in 0..hosts {
                f.push(x % (free_max + 1));
                x /= free_max + 1;
            }
            v.push(f);
        }
        v
    };
    for chunks in &chunk_lists {
        for free in &free_vecs {
            for separate in [false, true] {
                if separate && (chunks.len() == 1 || !thorough && chunks.len() == 3) {
                    continue;
                }
                // quick tier: three-chunk tables only with no / one free proxy on every host
                if trim && !thorough && chunks.len() == 3 && !(free.iter().all(|f| *f == 0) || free.iter().all(|f| *f == 1)) {
                    continue;
                }
                let mut used = vec![0usize; hosts];
                let mut counts = vec![0usize; hosts];
                for (a, b) in chunks {
                    counts[*a] += 1;
                    counts[*b] += 1;
                }
                for h in 0..hosts {
                    counts[h] += free[h];
                }
                let layout = Layout::new(&counts);
                let hname = |h: usize| layout.hosts[h].0.clone();
                let mut idx = 0usize;
                let mut reg = |h: usize, used: &mut Vec<usize>, ops: &mut Vec<Op>| {
                    let addr = format!("{}:70{:02}", hname(h), used[h]);
                    used[h] += 1;
                    ops.push(Op::AddProxy { addr, host: hname(h), index: idx });
                    idx += 1;
                };
                let mut ops = vec![];
                for (i, (a, b)) in chunks.iter().enumerate() {
                    reg(*a, &mut used, &mut ops);
                    reg(*b, &mut used, &mut ops);
                    if i == 0 {
                        ops.push(Op::AddCluster { name: "c1".into(), n: 4 });
                    } else if separate {
                        ops.push(Op::AddCluster { name: format!("c{}", i + 1), n: 4 });
                    } else {
                        ops.push(Op::AutoAddNodes { name: "c1".into(), n: 4 });
                    }
                }
                for h in 0..hosts {
                    for _ in 0..free[h] {
                        reg(h, &mut used, &mut ops);
                    }
                }
                let clusters: Vec<String> = if separate { (0..chunks.len()).map(|i| format!("c{}", i + 1)).collect() } else { vec!["c1".into()] };
                out.push(RunCfg {
                    label: format!("constructed/chunks {:?}/free {:?}/separate {}", chunks, free, separate),
                    layout,
                    broker: BrokerCfg { ordered: false, migration_limit: 1, failure_quorum: 1, failure_ttl: 100000 },
                    profile: Profile::General,
                    depth: 1,
                    clusters,
                    sizes: vec![4],
                    stale: false,
                    init_ops: ops,
                    register_all: false,
                    family: Some("constructed link tables".into()),
                    max_states: 100_000,
                });
            }
        }
    }
    out
}

/// Start states with a chunk whose two halves sit on ONE host - reachable only through a failover
/// whose sole replacement candidate is on the surviving partner's host - next to k-1 ordinary
/// two-host chunks, with free proxies on both hosts; then one exhaustive step (create a second
/// cluster, scale out, fail over, ...).
fn same_host_family(thorough: bool) -> Vec<RunCfg> {
    let mut out = vec![];
    let kmax = if thorough { 5 } else { 4 };
    let fmax = if thorough { 3 } else { 2 };
    for k in 1..=kmax {
        for fa in 0..=fmax {
            for fb in 0..=fmax {
                if fa + fb < 2 || (!thorough && k < 3 && fa + fb > 3) {
                    continue;
                }
                // host 0: k + 1 + fa proxies, host 1: k + fb (one of them fails and stays registered)
                let layout = Layout::new(&[k + 1 + fa, k + fb]);
                let hname = |h: usize| layout.hosts[h].0.clone();
                let mut used = vec![0usize; 2];
                let mut idx = 0usize;
                let mut last_b = String::new();
                let mut reg = |h: usize, used: &mut Vec<usize>, ops: &mut Vec<Op>| -> String {
                    let addr = format!("{}:70{:02}", hname(h), used[h]);
                    used[h] += 1;
                    ops.push(Op::AddProxy { addr: addr.clone(), host: hname(h), index: idx });
                    idx += 1;
                    addr
                };
                let mut ops = vec![];
                for i in 0..k {
                    reg(0, &mut used, &mut ops);
                    last_b = reg(1, &mut used, &mut ops);
                    if i == 0 {
                        ops.push(Op::AddCluster { name: "c1".into(), n: 4 });
                    } else {
                        ops.push(Op::AutoAddNodes { name: "c1".into(), n: 4 });
                    }
                }
                // the only free proxy is on host 0: the replacement lands next to its partner
                reg(0, &mut used, &mut ops);
                ops.push(Op::Failover { addr: last_b.clone() });
                for _ in 0..fa {
                    reg(0, &mut used, &mut ops);
                }
                for _ in 0..fb {
                    reg(1, &mut used, &mut ops);
                }
                out.push(RunCfg {
                    label: format!("same-host chunk/{} chunks/free {} + {}", k, fa, fb),
                    layout,
                    broker: BrokerCfg { ordered: false, migration_limit: 1, failure_quorum: 1, failure_ttl: 100000 },
                    profile: Profile::General,
                    depth: 1,
                    clusters: vec!["c1".into(), "c2".into()],
                    sizes: vec![4],
                    stale: false,
                    init_ops: ops,
                    register_all: false,
                    family: Some("same-host chunk after replacement".into()),
                    max_states: 100_000,
                });
            }
        }
    }
    out
}

fn main() {
    let cli = Cli::parse();
    std::panic::set_hook(Box::new(|_| {}));
    if !det::selftest() {
        machinery_error("hash-seed override (getrandom) is not in effect");
    }
    if let Some(p) = &cli.replay {
        std::process::exit(replay(&cli, p));
    }
    let prop = cli.prop.clone();
    if !["C01", "C04", "C06", "C10", "C12"].contains(&prop.as_str()) {
        machinery_error("brokermc serves C01 C04 C06 C10 C12");
    }
    let level = if prop == "C06" { "model_checking" } else { "model_checking" };
    let mut rep = Report::new(&cli, level);
    rep.assumptions = vec![
        "transitions are the public MemBrokerService methods behind the HTTP routes; warp/HTTP itself is not exercised".into(),
        "hash-map iteration order is owned via a getrandom override and sampled over hash seeds (reported), not enumerated".into(),
        "epoch rank-compression of states is re-validated on every transition by executing it from two concretisations".into(),
        "failure-report ages are not distinguished in this search (all reports fresh); C18 covers ages".into(),
    ];
    let hash_seeds: u64 = cli.opt("--hash-seeds").and_then(|s| s.parse().ok()).unwrap_or(if cli.thorough() { 3 } else { 1 });
    let mut total = Stats::default();
    let mut all_found: Vec<Found> = vec![];
    let mut per_cfg = vec![];
    let mut family_acc: BTreeMap<String, (usize, usize, usize)> = BTreeMap::new();
    let cfgs = configs(&cli, &prop);
    let only = cli.opt("--only").and_then(|s| s.parse::<usize>().ok());
    for (ci, cfg) in cfgs.iter().enumerate() {
        if let Some(o) = only {
            if o != ci {
                continue;
            }
        }
        // the one-step start-state families are cheap: sample more hash seeds there (allocator
        // tie-breaks between hosts with equally many free proxies follow the map order)
        let seeds_here = if cfg.family.is_some() { hash_seeds.max(if cli.thorough() { 6 } else { 4 }) } else { hash_seeds };
        let (s, f) = run_search(&cli, cfg, &prop, seeds_here);
        if let Some(fam) = &cfg.family {
            let e = family_acc.entry(fam.clone()).or_insert((0usize, 0usize, 0usize));
            e.0 += 1;
            e.1 += s.states;
            e.2 += s.transitions;
        } else {
        per_cfg.push(json!({
            "config": cfg.label, "states": s.states, "transitions": s.transitions, "nontrivial_transitions": s.nontrivial,
            "max_depth_completed": s.max_depth_completed, "frontier_exhausted": s.exhausted, "cap_hit": s.cap_hit,
            "results": s.results, "ops": s.ops, "hash_seed_new_successors": s.seed_new_successors,
        }));
        }
        total.states += s.states;
        total.transitions += s.transitions;
        total.nontrivial += s.nontrivial;
        total.panics += s.panics;
        total.conc_mismatch += s.conc_mismatch;
        total.imax_broken += s.imax_broken;
        total.cap_hit |= s.cap_hit;
        total.seed_new_successors += s.seed_new_successors;
        if total.samples.len() < 8 {
            total.samples.extend(s.samples);
        }
        all_found.extend(f);
    }
    if total.conc_mismatch > 0 {
        machinery_error(&format!("state canonicalisation argument failed: {} concretisation mismatches", total.conc_mismatch));
    }
    all_found.sort_by(|a, b| (a.depth, &a.key).cmp(&(b.depth, &b.key)));
    let violations: Vec<Violation> = all_found
        .into_iter()
        .map(|f| Violation { key: f.key, desc: f.desc, replay: f.replay })
        .collect();
    if total.samples.is_empty() {
        total.samples.push(json!("no non-trivial transition sampled"));
    }
    let cov = json!({
        "states": total.states,
        "transitions": total.transitions,
        "traces_validated_against_impl": total.transitions,
        "nontrivial_transitions": total.nontrivial,
        "samples": total.samples,
        "exhaustive": !total.cap_hit,
        "bound": "all operation sequences up to the per-configuration depth (see configs); exhaustive=false means a state/wall cap stopped a configuration before its depth, max_depth_completed says where",
        "hash_seeds_per_transition": hash_seeds,
        "hash_seeds_per_transition_in_start_state_families": hash_seeds.max(if cli.thorough() { 6 } else { 4 }),
        "hash_seed_new_successors": total.seed_new_successors,
        "states_where_global_epoch_is_not_the_maximum": total.imax_broken,
        "configs": per_cfg,
        "start_state_families": family_acc.iter().map(|(k, v)| json!({"family": k, "start_states": v.0, "states": v.1, "transitions": v.2, "depth": 1})).collect::<Vec<_>>(),
        "explanation": "every transition is one call of a public MemBrokerService method on a service restored from the pre-state snapshot; there is no separate model, so every transition counted is validated against the implementation by construction",
    });
    let code = rep.finish(cov, violations);
    std::process::exit(code);
}
