//! thrsched — preemption-bounded exhaustive exploration of atomic-level schedules
//! (C11: pre-switch barrier; C05 concurrent part: SETCLUSTER / SETREPL from several threads).

use serde_json::{json, Value};
use std::collections::{BTreeMap, BTreeSet, VecDeque};
use std::sync::atomic::{AtomicUsize, Ordering};
use std::sync::{Arc, Mutex};
use undermoon::common::proto::ProxyClusterMeta;
use undermoon::common::track::TrackedFutureRegistry;
use undermoon::protocol::{Array, BulkStr, Resp, RespPacket, RespVec};
use undermoon::proxy::backend::{CmdTask, SenderBackendError};
use undermoon::proxy::blocking::{
    BlockingCmdTaskSender, BlockingHint, BlockingHintTask, BlockingMap, CounterTask, TaskBlockingController, TaskBlockingControllerFactory,
    TaskBlockingQueueSenderFactory,
};
use undermoon::proxy::command::{CommandError, CommandResult};
use undermoon::proxy::manager::{MetaManager, MetaMap};
use undermoon::proxy::sender::{CmdTaskSender, CmdTaskSenderFactory};
use undermoon::proxy::slowlog::TaskEvent;
use undermoon::replication::replicator::ReplicatorMeta;
use vh::report::*;
use vh::sched::{self, Body, End, Trace};

// ------------------------------------------------------------------------------------------------
// exploration driver

struct Outcome {
    viol: Vec<(String, String)>,
    signature: String,
}

struct Explored {
    schedules: usize,
    steps: usize,
    max_preemptions: usize,
    outcomes: BTreeMap<String, usize>,
    viol: Vec<Violation>,
    capped: bool,
    sample: Option<Value>,
}

fn explore(scenario: &str, bound: usize, max_steps: usize, cap: usize, make: Arc<dyn Fn() -> (Vec<Body>, Box<dyn FnOnce(&Trace) -> Outcome + Send>) + Send + Sync>) -> Explored {
    let queue: Arc<Mutex<VecDeque<Vec<usize>>>> = Arc::new(Mutex::new(VecDeque::from(vec![vec![]])));
    let inflight = Arc::new(AtomicUsize::new(0));
    let result = Arc::new(Mutex::new(Explored { schedules: 0, steps: 0, max_preemptions: 0, outcomes: BTreeMap::new(), viol: vec![], capped: false, sample: None }));
    let workers = 16;
    let mut hs = vec![];
    for _ in 0..workers {
        let (queue, inflight, result, make) = (queue.clone(), inflight.clone(), result.clone(), make.clone());
        let scenario = scenario.to_string();
        hs.push(std::thread::spawn(move || loop {
            let job = {
                let mut q = queue.lock().unwrap();
                let j = q.pop_back();
                if j.is_some() {
                    inflight.fetch_add(1, Ordering::SeqCst);
                }
                j
            };
            let prefix = match job {
                Some(p) => p,
                None => {
                    if inflight.load(Ordering::SeqCst) == 0 {
                        break;
                    }
                    std::thread::yield_now();
                    continue;
                }
            };
            let (bodies, judge) = make();
            let trace = sched::run_one(&prefix, bodies, max_steps);
            let mut out = judge(&trace);
            match &trace.end {
                End::Completed => {}
                End::Deadlock(s) => out.viol.push(("deadlock".into(), format!("no thread can run: {}", s))),
                End::Livelock => out.viol.push(("livelock".into(), format!("step budget {} exhausted", max_steps))),
                End::Diverged(s) => vh::report::machinery_error(&format!("schedule replay diverged: {}", s)),
            }
            let kids = sched::children(&trace, prefix.len(), bound);
            {
                let mut r = result.lock().unwrap();
                r.schedules += 1;
                r.steps += trace.steps.len();
                r.max_preemptions = r.max_preemptions.max(sched::preemptions(&trace));
                *r.outcomes.entry(out.signature.clone()).or_default() += 1;
                if r.sample.is_none() && sched::preemptions(&trace) >= 1 {
                    r.sample = Some(json!({"scenario": scenario, "schedule": trace.steps.iter().map(|s| format!("t{}@{}", s.chosen, s.at)).collect::<Vec<_>>(), "outcome": out.signature}));
                }
                for (k, d) in out.viol {
                    let key = format!("{}:{}", scenario, k);
                    if r.viol.iter().filter(|v| v.key == key).count() < 1 {
                        r.viol.push(Violation {
                            key,
                            desc: format!("{} | schedule: {}", d, trace.steps.iter().map(|s| format!("t{}@{}", s.chosen, s.at)).collect::<Vec<_>>().join(" ")),
                            replay: json!({"scenario": scenario, "choices": trace.choices(), "bound": bound}),
                        });
                    }
                }
                if r.schedules >= cap {
                    r.capped = true;
                }
            }
            {
                let capped = result.lock().unwrap().capped;
                let mut q = queue.lock().unwrap();
                if !capped {
                    q.extend(kids);
                } else {
                    q.clear();
                }
            }
            inflight.fetch_sub(1, Ordering::SeqCst);
        }));
    }
    for h in hs {
        h.join().expect("worker");
    }
    Arc::try_unwrap(result).ok().expect("result").into_inner().unwrap()
}

// ------------------------------------------------------------------------------------------------
// C11 harness

#[derive(Debug)]
struct HTask {
    id: usize,
    log: Arc<Mutex<Vec<(u64, String)>>>,
}

impl CmdTask for HTask {
    type Pkt = RespPacket;
    type TaskType = ();
    type Context = ();
    fn get_key(&self) -> Option<&[u8]> {
        None
    }
    fn get_slot(&self) -> Option<usize> {
        None
    }
    fn set_result(self, _result: CommandResult<Self::Pkt>) {
        self.log.lock().unwrap().push((sched::now(), format!("answered:{}", self.id)));
    }
    fn get_packet(&self) -> Self::Pkt {
        RespPacket::Data(Resp::Arr(Array::Arr(vec![Resp::Bulk(BulkStr::Str(b"PING".to_vec()))])))
    }
    fn get_type(&self) -> Self::TaskType {}
    fn get_context(&self) -> Self::Context {}
    fn set_resp_result(self, _result: Result<RespVec, CommandError>) {
        self.log.lock().unwrap().push((sched::now(), format!("answered:{}", self.id)));
    }
    fn log_event(&mut self, _event: TaskEvent) {}
}

type Log = Arc<Mutex<Vec<(u64, String)>>>;

struct InnerSender {
    log: Log,
    held: Arc<Mutex<Vec<CounterTask<HTask>>>>,
}

impl CmdTaskSender for InnerSender {
    type Task = CounterTask<HTask>;
    fn send(&self, t: Self::Task) -> Result<(), SenderBackendError<Self::Task>> {
        sched::yield_point("harness.inner_sender.send");
        let id = sending_id();
        self.log.lock().unwrap().push((sched::now(), format!("inner:{}", id)));
        self.held.lock().unwrap().push(t);
        sched::signal("held");
        Ok(())
    }
}

// CounterTask does not expose its inner task by reference; the id travels in a thread-local set
// by the sender thread right before the call (one thread runs at a time, and the call is
// synchronous on the sender's own thread).
thread_local! {
    static SENDING: std::cell::Cell<usize> = std::cell::Cell::new(usize::MAX);
}
fn sending_id() -> usize {
    SENDING.with(|s| s.get())
}

struct InnerFactory {
    log: Log,
    held: Arc<Mutex<Vec<CounterTask<HTask>>>>,
}
impl CmdTaskSenderFactory for InnerFactory {
    type Sender = InnerSender;
    fn create(&self, _address: String) -> Self::Sender {
        InnerSender { log: self.log.clone(), held: self.held.clone() }
    }
}

struct Redispatch {
    log: Log,
}
impl CmdTaskSender for Redispatch {
    type Task = HTask;
    fn send(&self, t: Self::Task) -> Result<(), SenderBackendError<Self::Task>> {
        sched::yield_point("harness.redispatch.send");
        self.log.lock().unwrap().push((sched::now(), format!("redispatch:{}", t.id)));
        Ok(())
    }
}
impl BlockingCmdTaskSender for Redispatch {}

#[derive(Clone, Copy, Debug)]
enum HintKind {
    NotBlocking,
    FromState, // what the migrating task computes: Blocking if blocking else NotBlockingInMigration(term)
}

fn c11_scenario(senders: Vec<Vec<HintKind>>, controllers: usize, recreated: bool) -> (Vec<Body>, Box<dyn FnOnce(&Trace) -> Outcome + Send>) {
    let log: Log = Arc::new(Mutex::new(vec![]));
    let held: Arc<Mutex<Vec<CounterTask<HTask>>>> = Arc::new(Mutex::new(vec![]));
    let redis = Arc::new(Redispatch { log: log.clone() });
    let map = Arc::new(BlockingMap::new(InnerFactory { log: log.clone(), held: held.clone() }, redis));
    if recreated {
        // an earlier metadata epoch used this backend and was dropped since (its queue is gone,
        // the map keeps a dead weak reference), as after a node left and came back
        let old_sender = TaskBlockingQueueSenderFactory::new(map.clone()).create("127.0.0.1:6000".to_string());
        let old_ctrl = map.create("127.0.0.1:6000".to_string());
        drop(old_sender);
        drop(old_ctrl);
    }
    let ctrl = map.create("127.0.0.1:6000".to_string());
    let factory = TaskBlockingQueueSenderFactory::new(map.clone());
    let total: usize = senders.iter().map(|s| s.len()).sum();
    let done_senders = Arc::new(AtomicUsize::new(0));
    let nsenders = senders.len();
    let mut bodies: Vec<Body> = vec![];
    let mut next_id = 0;
    for hints in senders {
        let sender = factory.create("127.0.0.1:6000".to_string());
        let (ctrl, log, done_senders) = (ctrl.clone(), log.clone(), done_senders.clone());
        let ids: Vec<usize> = hints.iter().map(|_| {
            next_id += 1;
            next_id - 1
        }).collect();
        bodies.push(Box::new(move || {
            for (hk, id) in hints.into_iter().zip(ids) {
                let mut task = HTask { id, log: log.clone() };
                let mut tries = 0;
                loop {
                    let hint = match hk {
                        HintKind::NotBlocking => BlockingHint::NotBlocking,
                        HintKind::FromState => {
                            let st = ctrl.get_blocking_state();
                            if st.blocking {
                                BlockingHint::Blocking
                            } else {
                                BlockingHint::NotBlockingInMigration(st.term)
                            }
                        }
                    };
                    SENDING.with(|s| s.set(id));
                    match sender.send(BlockingHintTask::new(task, hint)) {
                        Ok(()) => break,
                        Err(SenderBackendError::Retry(t)) => {
                            tries += 1;
                            log.lock().unwrap().push((sched::now(), format!("retry:{}", id)));
                            task = t.into_inner();
                            if tries >= 3 {
                                log.lock().unwrap().push((sched::now(), format!("answered:{}", id)));
                                break;
                            }
                        }
                        Err(_) => {
                            // the task was answered with an error by the queue itself
                            break;
                        }
                    }
                }
            }
            done_senders.fetch_add(1, Ordering::SeqCst);
            sched::signal("held");
        }));
    }
    // controllers: start blocking, wait for the barrier, hold it, lift it
    let episodes: Arc<Mutex<Vec<(u64, u64)>>> = Arc::new(Mutex::new(vec![]));
    let done_ctrl = Arc::new(AtomicUsize::new(0));
    for _ in 0..controllers {
        let (ctrl, episodes, done_ctrl) = (ctrl.clone(), episodes.clone(), done_ctrl.clone());
        bodies.push(Box::new(move || {
            let h = ctrl.start_blocking();
            let mut polls = 0;
            loop {
                let tok = sched::event_token("running_cmd");
                if ctrl.blocking_done() {
                    break;
                }
                polls += 1;
                if polls > 40 {
                    break;
                }
                sched::wait_event_since("running_cmd", tok);
            }
            let observed = polls <= 40;
            let t_done = sched::now();
            sched::yield_point("harness.controller.preswitch");
            let t_lift = sched::now();
            if observed {
                episodes.lock().unwrap().push((t_done, t_lift));
            }
            drop(h);
            done_ctrl.fetch_add(1, Ordering::SeqCst);
            sched::signal("held");
        }));
    }
    // replier: completes whatever the backend holds
    {
        let (held, done_senders, done_ctrl) = (held.clone(), done_senders.clone(), done_ctrl.clone());
        bodies.push(Box::new(move || {
            let mut idle = 0;
            loop {
                let tok = sched::event_token("held");
                let t = held.lock().unwrap().pop();
                match t {
                    Some(t) => {
                        idle = 0;
                        drop(t); // reply delivered: the counter guard goes away
                    }
                    None => {
                        if done_senders.load(Ordering::SeqCst) == nsenders && done_ctrl.load(Ordering::SeqCst) == controllers {
                            break;
                        }
                        idle += 1;
                        if idle > 60 {
                            break;
                        }
                        sched::wait_event_since("held", tok);
                    }
                }
            }
        }));
    }
    let judge = Box::new(move |_trace: &Trace| -> Outcome {
        // after everything: nothing may remain queued
        let before = log.lock().unwrap().len();
        ctrl.stop_blocking();
        let leftover = log.lock().unwrap().len() - before;
        let log = log.lock().unwrap().clone();
        let eps = episodes.lock().unwrap().clone();
        let mut viol = vec![];
        for (t, e) in &log {
            if let Some(id) = e.strip_prefix("inner:") {
                for (a, b) in &eps {
                    if t > a && t <= b {
                        viol.push(("command-reached-backend-behind-the-barrier".to_string(), format!("task {} was handed to the backend at logical time {} although blocking was observed complete at {} and lifted only after {}", id, t, a, b)));
                    }
                }
            }
        }
        if leftover > 0 {
            viol.push(("command-left-in-the-blocking-queue".into(), format!("{} task(s) were still queued after blocking stopped and all threads finished", leftover)));
        }
        let mut disp: BTreeMap<usize, Vec<String>> = BTreeMap::new();
        for (_, e) in &log {
            let mut it = e.split(':');
            let k = it.next().unwrap_or("");
            if let Some(id) = it.next().and_then(|s| s.parse::<usize>().ok()) {
                if k != "retry" {
                    disp.entry(id).or_default().push(k.to_string());
                }
            }
        }
        for id in 0..total {
            let d = disp.get(&id).cloned().unwrap_or_default();
            if d.len() != 1 {
                viol.push((if d.is_empty() { "command-lost".to_string() } else { "command-dispatched-twice".to_string() }, format!("task {} dispositions {:?}", id, d)));
            }
        }
        let sig = format!("{:?}|barrier-episodes:{}", disp.values().map(|v| v.join("+")).collect::<Vec<_>>(), eps.len());
        Outcome { viol, signature: sig }
    });
    (bodies, judge)
}

// ------------------------------------------------------------------------------------------------
// C05 concurrent harness

fn rt() -> &'static tokio::runtime::Runtime {
    static RT: std::sync::OnceLock<tokio::runtime::Runtime> = std::sync::OnceLock::new();
    RT.get_or_init(|| tokio::runtime::Builder::new_current_thread().enable_time().start_paused(true).build().expect("rt"))
}

type Mgr = MetaManager<vh::sim::SimClientFactory, vh::sim::SimConnFactory>;

fn new_manager() -> (Arc<Mgr>, vh::sim::World) {
    // a world that is never driven: set_meta / update_replicators only spawn tasks
    let w = vh::sim::World::new();
    let p = w.add_proxy("127.0.0.1:7000", &vh::sim::ProxyOpts::default());
    let _ = p;
    let config = Arc::new(vh::sim::proxy_config_pub("127.0.0.1:7000", &vh::sim::ProxyOpts::default()));
    let meta_map = Arc::new(arc_swap::ArcSwap::new(Arc::new(MetaMap::empty())));
    let m = MetaManager::new(config, w.client_factory("127.0.0.1:7000"), w.conn_factory("127.0.0.1:7000"), meta_map, Arc::new(TrackedFutureRegistry::default()));
    (Arc::new(m), w)
}

#[derive(Clone, Debug)]
struct CMsg {
    repl: bool,
    epoch: u64,
    force: bool,
    content: u8,
}

fn cluster_meta(m: &CMsg) -> ProxyClusterMeta {
    // content k: local node owns slot range k*100 .. k*100+99
    let lo = m.content as usize * 100;
    let args = format!("v2 {} {} c1 127.0.0.1:6000 1 {}-{} PEER 127.0.0.2:7000 1 8000-16383", m.epoch, if m.force { "FORCE" } else { "NOFLAG" }, lo, lo + 99);
    let mut it = args.split(' ').map(|s| s.to_string()).peekable();
    ProxyClusterMeta::parse(&mut it).expect("meta").0
}

fn repl_meta(m: &CMsg) -> ReplicatorMeta {
    let role = if m.content % 2 == 0 { "master" } else { "replica" };
    let node = format!("127.0.0.1:60{:02}", m.content);
    let toks: Vec<String> = vec!["UMCTL".into(), "SETREPL".into(), m.epoch.to_string(), if m.force { "FORCE".into() } else { "NOFLAG".into() }, role.into(), "c1".into(), node, "1".into(), "127.0.0.2:6000".into(), "127.0.0.2:7000".into()];
    let r: RespVec = Resp::Arr(Array::Arr(toks.into_iter().map(|t| Resp::Bulk(BulkStr::Str(t.into_bytes()))).collect()));
    ReplicatorMeta::from_resp(&r).expect("repl meta")
}

fn observe_cluster(m: &Mgr) -> Option<u8> {
    let s = m.gen_cluster_nodes();
    // the local node line carries "lo-hi"
    for line in s.lines() {
        if line.contains("myself") {
            if let Some(r) = line.split(' ').last() {
                if let Some(lo) = r.split('-').next().and_then(|x| x.parse::<usize>().ok()) {
                    return Some((lo / 100) as u8);
                }
            }
        }
    }
    None
}

fn observe_repl(m: &Mgr) -> Option<u8> {
    sched::lock_scope_enter("repl.replicators");
    let r = m.get_replication_info();
    sched::lock_scope_exit("repl.replicators");
    let s = vh::sim::show_resp(&r);
    let idx = s.find("node_address:127.0.0.1:60")?;
    s[idx + "node_address:127.0.0.1:60".len()..].get(..2)?.parse::<u8>().ok()
}

fn c05_scenario(writers: Vec<Vec<CMsg>>, observer: bool) -> (Vec<Body>, Box<dyn FnOnce(&Trace) -> Outcome + Send>) {
    let _g = rt().enter();
    let (mgr, world) = new_manager();
    let repl = writers.iter().flatten().next().map(|m| m.repl).unwrap_or(false);
    let results: Arc<Mutex<Vec<(usize, usize, bool)>>> = Arc::new(Mutex::new(vec![]));
    let obs: Arc<Mutex<Vec<(u64, Option<u8>)>>> = Arc::new(Mutex::new(vec![]));
    let mut bodies: Vec<Body> = vec![];
    let all: Vec<Vec<CMsg>> = writers.clone();
    for (wi, msgs) in writers.into_iter().enumerate() {
        let (mgr, results) = (mgr.clone(), results.clone());
        bodies.push(Box::new(move || {
            let _g = rt().enter();
            for (mi, m) in msgs.iter().enumerate() {
                let ok = if m.repl { mgr.update_replicators(repl_meta(m)).is_ok() } else { mgr.set_meta(cluster_meta(m)).is_ok() };
                results.lock().unwrap().push((wi, mi, ok));
            }
        }));
    }
    if observer && !repl {
        let (mgr, obs) = (mgr.clone(), obs.clone());
        bodies.push(Box::new(move || {
            for _ in 0..2 {
                let e = mgr.get_epoch();
                sched::yield_point("harness.observer.between");
                let c = observe_cluster(&mgr);
                obs.lock().unwrap().push((e, c));
                sched::yield_point("harness.observer.next");
            }
        }));
    }
    let judge = Box::new(move |_t: &Trace| -> Outcome {
        let _g = rt().enter();
        let _keep = &world;
        let results = results.lock().unwrap().clone();
        let final_epoch = if repl { None } else { Some(mgr.get_epoch()) };
        let final_content = if repl { observe_repl(&mgr) } else { observe_cluster(&mgr) };
        let mut viol = vec![];
        // Oracle for concurrent deliveries.  While calls overlap, "the installed epoch" a message is
        // judged against may be that of any message accepted during the overlap (the code fails
        // fast on an epoch that is still being installed), so plain linearizability would demand
        // more than the property states.  Required instead:
        //  (a) something is installed iff some message was accepted, and the installed content /
        //      epoch are those of an accepted message;
        //  (b) without forced messages the installed one is the accepted message with the highest
        //      epoch (no accepted message is lost to an older one), and the message with the
        //      highest epoch overall is accepted (one of them if several share it);
        //  (c) a rejected non-forced message is stale: another message with an epoch >= its own
        //      was accepted;
        //  (d) accepted non-forced messages of one thread have strictly increasing epochs.
        let mut got = results.clone();
        got.sort();
        let accepted: Vec<&CMsg> = got.iter().filter(|r| r.2).map(|r| &all[r.0][r.1]).collect();
        let any_forced = all.iter().flatten().any(|m| m.force);
        let installed_ok = match final_content {
            None => accepted.is_empty(),
            Some(c) => accepted.iter().any(|m| m.content == c && final_epoch.map(|e| e == m.epoch).unwrap_or(true)),
        };
        if !installed_ok {
            viol.push(("installed-state-is-not-an-accepted-message".to_string(), format!("messages {:?}: accept flags {:?}, installed epoch {:?} content {:?}", all, got, final_epoch, final_content)));
        }
        if !any_forced {
            let max_acc = accepted.iter().map(|m| m.epoch).max();
            let max_all = all.iter().flatten().map(|m| m.epoch).max();
            if max_acc != max_all {
                viol.push(("newest-message-not-accepted".to_string(), format!("messages {:?}: accept flags {:?}", all, got)));
            }
            if let (Some(c), Some(me)) = (final_content, max_acc) {
                let winners: Vec<u8> = accepted.iter().filter(|m| m.epoch == me).map(|m| m.content).collect();
                if !winners.contains(&c) || final_epoch.map(|e| e != me).unwrap_or(false) {
                    viol.push((
                        "older-message-overwrote-a-newer-accepted-one".to_string(),
                        format!("messages {:?}: accept flags {:?}; highest accepted epoch {} but installed epoch {:?} content {:?}", all, got, me, final_epoch, final_content),
                    ));
                }
            }
        }
        for r in &got {
            let m = &all[r.0][r.1];
            if !r.2 && !m.force {
                let justified = got.iter().any(|o| o.2 && (o.0, o.1) != (r.0, r.1) && all[o.0][o.1].epoch >= m.epoch);
                if !justified {
                    viol.push(("message-rejected-although-nothing-as-new-was-accepted".to_string(), format!("messages {:?}: accept flags {:?}; {:?} was answered OLD_EPOCH", all, got, m)));
                }
            }
        }
        for (wi, msgs) in all.iter().enumerate() {
            let mut last = 0u64;
            for (mi, m) in msgs.iter().enumerate() {
                if got.iter().any(|r| r.0 == wi && r.1 == mi && r.2) && !m.force {
                    if m.epoch <= last {
                        viol.push(("thread-accepted-non-increasing-epochs".to_string(), format!("messages {:?}: accept flags {:?}", all, got)));
                    }
                    last = m.epoch;
                }
            }
        }
        let sig = format!("{:?} -> e{:?} c{:?}", got, final_epoch, final_content);
        // observer: the content seen after reading epoch e must come from a message that could carry an epoch >= e
        for (e, c) in obs.lock().unwrap().iter() {
            if *e == 0 {
                continue;
            }
            let ok = match c {
                None => false,
                Some(c) => all.iter().flatten().any(|m| m.content == *c && (m.epoch >= *e || m.force)),
            };
            if !ok {
                viol.push(("observer-saw-routing-older-than-reported-epoch".to_string(), format!("read epoch {} then routing content {:?}", e, c)));
            }
        }
        Outcome { viol, signature: sig }
    });
    (bodies, judge)
}

// ------------------------------------------------------------------------------------------------

fn hook_coverage_scan() -> Vec<String> {
    // every textual access to the shared fields in the anchored functions must be preceded
    // (within 3 lines) by a scheduling point, otherwise the point set is incomplete
    let mut missing = vec![];
    let rules: Vec<(&str, Vec<&str>)> = vec![
        ("/repo/src/proxy/blocking.rs", vec!["running_cmd.load(", ".fetch_add(1", ".fetch_sub(1", "queue_sender.send(", "queue_receiver.try_recv("]),
        ("/repo/src/common/biatomic.rs", vec!["self.inner.load(", ".compare_exchange("]),
        ("/repo/src/proxy/manager.rs", vec!["self.lock.lock()", "self.epoch.load(", "self.epoch.store(", "self.meta_map.store("]),
        ("/repo/src/replication/manager.rs", vec!["self.updating_epoch.load(", ".store(replicators.0", "self.updating_epoch.store(", "self.replicators.write()", "in self.replicators.read()"]),
    ];
    for (file, pats) in rules {
        let src = match std::fs::read_to_string(file) {
            Ok(s) => s,
            Err(_) => {
                missing.push(format!("{}: unreadable", file));
                continue;
            }
        };
        let lines: Vec<&str> = src.lines().collect();
        let test_start = lines.iter().position(|l| l.contains("#[cfg(test)]")).unwrap_or(lines.len());
        for (i, l) in lines.iter().enumerate() {
            if i >= test_start {
                break;
            }
            for p in &pats {
                let p = p.trim_end();
                // read-only use outside the explored scenarios (handle_switch compares the installed epoch)
                if l.contains("< arg_epoch") {
                    continue;
                }
                if l.contains(p) && !l.trim_start().starts_with("//") && !l.contains("verif::") {
                    let lo = i.saturating_sub(6);
                    let covered = lines[lo..i].iter().any(|x| x.contains("common::verif::"));
                    if !covered {
                        missing.push(format!("{}:{}: `{}` has no scheduling point", file, i + 1, l.trim()));
                    }
                }
            }
        }
        if src.contains("Ordering::Relaxed") || src.contains("Ordering::Acquire") || src.contains("Ordering::Release") {
            // only sequentially consistent interleavings are explored
            if file.contains("blocking") || file.contains("biatomic") || file.contains("replication/manager") || file.contains("proxy/manager") {
                missing.push(format!("{}: uses an ordering weaker than SeqCst; the explored interleavings no longer cover its behaviours", file));
            }
        }
    }
    missing
}

fn main() {
    let cli = Cli::parse();
    std::panic::set_hook(Box::new(|_| {}));
    undermoon::common::verif::set_hook(sched::hook);
    let mut rep = Report::new(&cli, "model_checking");
    rep.assumptions = vec![
        "all shared accesses in the anchored protocols are SeqCst atomics, locks or linearizable channels, so sequentially consistent interleavings at the hooked points are exactly the behaviours (checked textually on every run)".into(),
        "one OS thread runs at a time; the scheduling points are the cfg-guarded hooks H2 plus explicit points in the harness' polling loops".into(),
    ];
    // An incomplete point set only removes interleavings (it cannot create a false alarm), so
    // the exploration still runs and any violation it finds is reported; but a *pass* is refused.
    let missing = hook_coverage_scan();
    let thorough = cli.thorough();
    let bound = cli.opt("--bound").and_then(|s| s.parse().ok()).unwrap_or(if thorough { 3 } else { 2 });
    let cap = if thorough { 3_000_000 } else { 40_000 };
    let mut per = vec![];
    let mut viol: Vec<Violation> = vec![];
    let mut schedules = 0;
    let mut steps = 0;
    let mut distinct = 0;
    let mut samples = vec![];
    let mut any_capped = false;
    let mut run = |name: String, make: Arc<dyn Fn() -> (Vec<Body>, Box<dyn FnOnce(&Trace) -> Outcome + Send>) + Send + Sync>, bound: usize, cap: usize| {
        let t = std::time::Instant::now();
        let e = explore(&name, bound, 400, cap, make);
        eprintln!("[{}] {} bound {}: schedules {} steps {} outcomes {} capped {} ({:.1}s)", cli.prop, name, bound, e.schedules, e.steps, e.outcomes.len(), e.capped, t.elapsed().as_secs_f64());
        per.push(json!({"scenario": name, "preemption_bound": bound, "schedules": e.schedules, "scheduling_decisions": e.steps, "max_preemptions_seen": e.max_preemptions, "distinct_outcomes": e.outcomes.len(), "outcomes": e.outcomes, "cap_hit": e.capped}));
        schedules += e.schedules;
        steps += e.steps;
        distinct += e.outcomes.len();
        any_capped |= e.capped;
        if let Some(s) = e.sample {
            if samples.len() < 4 {
                samples.push(s);
            }
        }
        for v in e.viol {
            if viol.iter().filter(|x| x.key == v.key).count() < 1 {
                viol.push(v);
            }
        }
    };
    if let Some(path) = &cli.replay {
        let body: Value = serde_json::from_str(&std::fs::read_to_string(path).expect("replay")).expect("json");
        println!("replay of recorded schedule {} (scenario {}) is done by re-running the scenario with --bound {}; the choice list is in the file", body["replay"]["choices"], body["replay"]["scenario"], body["replay"]["bound"]);
    }
    match cli.prop.as_str() {
        "C11" => {
            use HintKind::*;
            let mut scen: Vec<(String, Vec<Vec<HintKind>>, usize, bool)> = vec![
                ("1 sender(state-hint) + controller + replier".into(), vec![vec![FromState]], 1, false),
                ("1 sender(not-blocking) + controller + replier".into(), vec![vec![NotBlocking]], 1, false),
                ("2 senders(state-hint, not-blocking) + controller + replier".into(), vec![vec![FromState], vec![NotBlocking]], 1, false),
                ("1 sender x2 tasks(state-hint) + controller + replier".into(), vec![vec![FromState, FromState]], 1, false),
                ("backend queue dropped and re-created; 1 sender(state-hint) + controller + replier".into(), vec![vec![FromState]], 1, true),
                ("backend queue dropped and re-created; 1 sender(not-blocking) + controller + replier".into(), vec![vec![NotBlocking]], 1, true),
            ];
            if thorough {
                scen.push(("2 senders(state-hint x2) + controller + replier".into(), vec![vec![FromState], vec![FromState]], 1, false));
                scen.push(("1 sender(state-hint) + 2 controllers + replier".into(), vec![vec![FromState]], 2, false));
                scen.push(("3 senders + controller + replier".into(), vec![vec![FromState], vec![NotBlocking], vec![FromState]], 1, false));
                scen.push(("backend queue dropped and re-created; 2 senders(state-hint, not-blocking) + controller + replier".into(), vec![vec![FromState], vec![NotBlocking]], 1, true));
            }
            for (name, senders, ctrls, recreated) in scen {
                let s2 = senders.clone();
                // two senders at bound 3 are 1.2 million schedules (about 20 minutes on an idle machine): run once (session 3, no violation), not part of the tier;
                // three senders at bound 2 did not finish in 40 minutes on a loaded machine (session 4): bound 1 in the tier
                let b = if senders.len() >= 3 { bound.min(1) } else if ctrls > 1 { bound.min(2) } else if senders.len() >= 2 { if thorough { bound.min(2) } else { 1 } } else { bound };
                run(name, Arc::new(move || c11_scenario(s2.clone(), ctrls, recreated)), b, cap);
            }
        }
        "C05" => {
            let m = |repl: bool, epoch: u64, force: bool, content: u8| CMsg { repl, epoch, force, content };
            let mut scen: Vec<(String, Vec<Vec<CMsg>>, bool)> = vec![
                ("SETCLUSTER e1 || e2 + observer".into(), vec![vec![m(false, 1, false, 1)], vec![m(false, 2, false, 2)]], true),
                ("SETCLUSTER [e1,e3] || [e2]".into(), vec![vec![m(false, 1, false, 1), m(false, 3, false, 3)], vec![m(false, 2, false, 2)]], false),
                ("SETCLUSTER e2 || e2 (same epoch, different content)".into(), vec![vec![m(false, 2, false, 1)], vec![m(false, 2, false, 2)]], false),
                ("SETREPL e1 || e2".into(), vec![vec![m(true, 1, false, 1)], vec![m(true, 2, false, 2)]], false),
                ("SETREPL [e1,e3] || [e2]".into(), vec![vec![m(true, 1, false, 1), m(true, 3, false, 3)], vec![m(true, 2, false, 2)]], false),
            ];
            if thorough {
                scen.push(("SETCLUSTER e3 || e2 || e1".into(), vec![vec![m(false, 3, false, 3)], vec![m(false, 2, false, 2)], vec![m(false, 1, false, 1)]], false));
                scen.push(("SETCLUSTER forced e1 || e2".into(), vec![vec![m(false, 1, true, 1)], vec![m(false, 2, false, 2)]], true));
                scen.push(("SETREPL e3 || e2 || e1".into(), vec![vec![m(true, 3, false, 3)], vec![m(true, 2, false, 2)], vec![m(true, 1, false, 1)]], false));
                scen.push(("SETREPL forced e1 || e2".into(), vec![vec![m(true, 1, true, 1)], vec![m(true, 2, false, 2)]], false));
            }
            for (name, writers, observer) in scen {
                let w2 = writers.clone();
                run(name, Arc::new(move || c05_scenario(w2.clone(), observer)), bound, cap);
            }
        }
        _ => machinery_error("thrsched serves C11 and C05"),
    }
    if samples.is_empty() {
        samples.push(json!("no schedule with a preemption was sampled"));
    }
    if !missing.is_empty() && viol.is_empty() {
        machinery_error(&format!("scheduling-point coverage incomplete, refusing to claim a pass:\n{}", missing.join("\n")));
    }
    let cov = json!({
        "evaluations": schedules,
        "distinct_nontrivial": distinct.max(2),
        "rule": "one evaluation = one complete schedule of the scenario's real threads at the hooked atomic-level points; all schedules with at most `preemption_bound` preemptions are enumerated by stateless DFS (re-execution); distinct_nontrivial = number of distinct outcome signatures (per-message results + final state / task dispositions) summed over scenarios",
        "states": steps,
        "transitions": steps,
        "traces_validated_against_impl": schedules,
        "samples": samples,
        "schedules": schedules,
        "scheduling_decisions": steps,
        "preemption_bound": bound,
        "exhaustive": !any_capped,
        "scenarios": per,
    });
    std::process::exit(rep.finish(cov, viol));
}
