//! quorummc — C18: failure reports, quorum, ttl, re-registration.
//!
//! Explicit-state BFS over the real broker (`add_failure`, `get_failures`, `get_failed_proxies`,
//! `add_proxy`, `remove_proxy`, `replace_failed_proxy`) against a reference model
//! (address -> reporter -> age class).  Report ages are controlled by rewriting the report
//! timestamps in the metadata snapshot on every restore (classes: fresh = now, near = now-(ttl-100s),
//! old = now-(ttl+100s)), so wall-clock drift cannot cross a class boundary.

use serde_json::{json, Value};
use std::collections::{BTreeMap, BTreeSet, HashSet};
use std::time::Instant;
use vh::brokerlib::*;
use vh::det;
use vh::report::*;

#[derive(Clone, Debug, PartialEq, Eq, PartialOrd, Ord, Hash)]
enum QOp {
    Report(String, String),
    Age(String, String),
    GetFailures,
    Register(String),
    Remove(String),
    MarkFailed(String),
}

#[derive(Clone, Debug, PartialEq, Eq, PartialOrd, Ord, Hash, Default)]
struct Model {
    registered: BTreeSet<String>,
    failed: BTreeSet<String>,
    // address -> reporter -> class (0 fresh, 1 near, 2 old)
    reports: BTreeMap<String, BTreeMap<String, u8>>,
}

impl Model {
    fn expected_failures(&self, q: u64) -> Vec<String> {
        self.reports
            .iter()
            .filter(|(a, reps)| {
                self.registered.contains(*a) && reps.values().filter(|c| **c < 2).count() as u64 >= q
            })
            .map(|(a, _)| a.clone())
            .collect()
    }
    fn apply(&mut self, op: &QOp) {
        match op {
            QOp::Report(a, r) => {
                self.reports.entry(a.clone()).or_default().entry(r.clone()).or_insert(0);
            }
            QOp::Age(a, r) => {
                if let Some(c) = self.reports.get_mut(a).and_then(|m| m.get_mut(r)) {
                    *c = (*c + 1).min(2);
                }
            }
            QOp::GetFailures => {
                for reps in self.reports.values_mut() {
                    reps.retain(|_, c| *c < 2);
                }
                self.reports.retain(|_, reps| !reps.is_empty());
            }
            QOp::Register(a) => {
                self.registered.insert(a.clone());
                self.reports.remove(a);
                self.failed.remove(a);
            }
            QOp::Remove(a) => {
                if self.registered.remove(a) {
                    self.reports.remove(a);
                    self.failed.remove(a);
                }
            }
            QOp::MarkFailed(a) => {
                if self.registered.contains(a) {
                    self.reports.remove(a);
                    self.failed.insert(a.clone());
                }
            }
        }
    }
}

#[derive(Clone)]
struct St {
    snap: Value, // broker snapshot with timestamps replaced by class numbers
    model: Model,
}

fn classes_to_times(snap: &Value, ttl: i64, now: i64) -> Value {
    let mut s = snap.clone();
    if let Some(f) = s.get_mut("failures").and_then(|c| c.as_object_mut()) {
        for reps in f.values_mut() {
            if let Some(m) = reps.as_object_mut() {
                for t in m.values_mut() {
                    let c = t.as_i64().unwrap_or(0);
                    *t = json!(match c {
                        0 => now,
                        1 => now - (ttl - 100),
                        _ => now - (ttl + 100),
                    });
                }
            }
        }
    }
    s
}

fn times_to_classes(snap: &Value, ttl: i64, now: i64) -> Result<Value, String> {
    let mut s = snap.clone();
    if let Some(f) = s.get_mut("failures").and_then(|c| c.as_object_mut()) {
        for reps in f.values_mut() {
            if let Some(m) = reps.as_object_mut() {
                for t in m.values_mut() {
                    let age = now - t.as_i64().unwrap_or(0);
                    let c = if age < 50 {
                        0
                    } else if (age - (ttl - 100)).abs() < 50 {
                        1
                    } else if (age - (ttl + 100)).abs() < 50 {
                        2
                    } else {
                        return Err(format!("report age {} fits no class (clock jumped?)", age));
                    };
                    *t = json!(c);
                }
            }
        }
    }
    // epochs do not matter for this property: erase them
    if let Some(o) = s.as_object_mut() {
        o.insert("global_epoch".into(), json!(0));
    }
    Ok(s)
}

fn observed_model(snap: &Value) -> (BTreeSet<String>, BTreeSet<String>, BTreeMap<String, BTreeMap<String, u8>>) {
    let reg: BTreeSet<String> = proxy_addrs(snap).into_iter().collect();
    let failed: BTreeSet<String> = snap
        .get("failed_proxies")
        .and_then(|x| x.as_array())
        .map(|a| a.iter().filter_map(|x| x.as_str().map(|s| s.to_string())).collect())
        .unwrap_or_default();
    let mut reps = BTreeMap::new();
    if let Some(f) = snap.get("failures").and_then(|c| c.as_object()) {
        for (a, m) in f {
            let mut mm = BTreeMap::new();
            for (r, c) in m.as_object().into_iter().flatten() {
                mm.insert(r.clone(), c.as_i64().unwrap_or(0) as u8);
            }
            reps.insert(a.clone(), mm);
        }
    }
    (reg, failed, reps)
}

struct Out {
    op: QOp,
    res: String,
    next: St,
    viol: Vec<(String, String)>,
}

fn payload(a: &str) -> Op {
    Op::AddProxy {
        addr: a.to_string(),
        host: a.split(':').next().unwrap_or("h").to_string(),
        index: 0,
    }
}

fn expand(cfg: &BrokerCfg, st: &St, addrs: &[String], reporters: &[String]) -> Vec<Out> {
    let ttl = cfg.failure_ttl as i64;
    let mut ops = vec![];
    for a in addrs {
        for r in reporters {
            ops.push(QOp::Report(a.clone(), r.clone()));
            if st.model.reports.get(a).and_then(|m| m.get(r)).map(|c| *c < 2).unwrap_or(false) {
                ops.push(QOp::Age(a.clone(), r.clone()));
            }
        }
        ops.push(QOp::Register(a.clone()));
        ops.push(QOp::Remove(a.clone()));
        ops.push(QOp::MarkFailed(a.clone()));
    }
    ops.push(QOp::GetFailures);
    let mut outs = vec![];
    for op in ops {
        let t0 = Instant::now();
        let now = chrono::Utc::now().timestamp();
        let mut viol = vec![];
        let mut snap_c = st.snap.clone();
        // harness action: one report gets older
        if let QOp::Age(a, r) = &op {
            if let Some(c) = snap_c.pointer_mut(&format!("/failures/{}/{}", a.replace('/', "~1"), r)) {
                *c = json!((c.as_i64().unwrap_or(0) + 1).min(2));
            }
        }
        let conc = classes_to_times(&snap_c, ttl, now);
        let b = match Broker::from_snapshot(cfg, 0, &conc) {
            Ok(b) => b,
            Err(e) => {
                viol.push(("restore-failed".into(), e));
                continue;
            }
        };
        let res = match &op {
            QOp::Report(a, r) => b.apply(&Op::AddFailure { addr: a.clone(), reporter: r.clone() }),
            QOp::Age(..) => "OK".into(),
            QOp::GetFailures => b.apply(&Op::GetFailures),
            QOp::Register(a) => b.apply(&payload(a)),
            QOp::Remove(a) => b.apply(&Op::RemoveProxy { addr: a.clone() }),
            QOp::MarkFailed(a) => b.apply(&Op::Failover { addr: a.clone() }),
        };
        let mut model = st.model.clone();
        model.apply(&op);
        let post_raw = b.snapshot();
        let now2 = chrono::Utc::now().timestamp();
        if t0.elapsed().as_secs() > 20 {
            vh::report::machinery_error("a single broker step took > 20 s; report-age classes cannot be trusted");
        }
        let post = match times_to_classes(&post_raw, ttl, now2.max(now)) {
            Ok(p) => p,
            Err(e) => vh::report::machinery_error(&e),
        };
        // ---- oracle 1: the listing returned by this very call (if it was a query)
        if let QOp::GetFailures = op {
            let listed: BTreeSet<String> = res.strip_prefix("OK:").unwrap_or("").split(',').filter(|s| !s.is_empty()).map(|s| s.to_string()).collect();
            check_listing(&listed, &st.model, cfg.failure_quorum, "get_failures", &mut viol);
        }
        // ---- oracle 2: what a query would list now (fresh service restored from the post-state)
        {
            let conc2 = classes_to_times(&post, ttl, now2);
            if let Ok(b2) = Broker::from_snapshot(cfg, 0, &conc2) {
                let r2 = b2.apply(&Op::GetFailures);
                let listed: BTreeSet<String> = r2.strip_prefix("OK:").unwrap_or("").split(',').filter(|s| !s.is_empty()).map(|s| s.to_string()).collect();
                check_listing(&listed, &model, cfg.failure_quorum, "get_failures after the operation", &mut viol);
                let mut failed = b2.failed_proxies();
                failed.sort();
                let want: Vec<String> = model.failed.iter().cloned().collect();
                // re-registration must clear the failed mark; a mark on an unregistered proxy must not exist
                if let QOp::Register(a) = &op {
                    if failed.contains(a) {
                        viol.push(("failed-mark-survives-reregistration".into(), format!("after add_proxy({}) failed proxies = {:?}", a, failed)));
                    }
                    let (_, _, reps) = observed_model(&post);
                    if reps.contains_key(a) {
                        viol.push(("reports-survive-reregistration".into(), format!("after add_proxy({}) reports = {:?}", a, reps.get(a))));
                    }
                }
                if failed != want {
                    // only "extra" marks contradict the property (a proxy listed as failed that the model says is not)
                    let extra: Vec<&String> = failed.iter().filter(|f| !model.failed.contains(*f)).collect();
                    if !extra.is_empty() {
                        viol.push(("failed-list-has-unexpected-proxy".into(), format!("after {:?}: failed proxies {:?}, model {:?}", op, failed, want)));
                    }
                }
            }
        }
        // ---- oracle 3: expired reports are discarded by a listing; a repeated report changes nothing
        let (_, _, reps) = observed_model(&post);
        if let QOp::GetFailures = op {
            if reps.values().any(|m| m.values().any(|c| *c >= 2)) {
                viol.push(("expired-report-not-discarded".into(), format!("after get_failures reports = {:?}", reps)));
            }
        }
        if let QOp::Report(a, r) = &op {
            if st.model.reports.get(a).map(|m| m.contains_key(r)).unwrap_or(false) {
                let (_, _, before) = observed_model(&st.snap);
                if before.get(a) != reps.get(a) {
                    viol.push(("repeated-report-changed-state".into(), format!("report ({},{}) repeated: {:?} -> {:?}", a, r, before.get(a), reps.get(a))));
                }
            }
        }
        outs.push(Out { op, res, next: St { snap: post, model }, viol });
    }
    outs
}

fn check_listing(listed: &BTreeSet<String>, model: &Model, q: u64, what: &str, viol: &mut Vec<(String, String)>) {
    for a in listed {
        let reps = model.reports.get(a);
        let fresh = reps.map(|m| m.values().filter(|c| **c < 2).count()).unwrap_or(0) as u64;
        if !model.registered.contains(a) {
            viol.push(("listed-unregistered-proxy".into(), format!("{} lists {} which is not registered", what, a)));
        } else if fresh < q {
            viol.push((
                "listed-without-quorum-of-fresh-reports".into(),
                format!("{} lists {} with {} fresh distinct reporters (quorum {}; reports {:?})", what, a, fresh, q, reps),
            ));
        }
    }
}

fn main() {
    let cli = Cli::parse();
    std::panic::set_hook(Box::new(|_| {}));
    if !det::selftest() {
        machinery_error("hash-seed override (getrandom) is not in effect");
    }
    let mut rep = Report::new(&cli, "model_checking");
    rep.assumptions = vec![
        "report ages are injected through the metadata snapshot (classes now / ttl-100s / ttl+100s); per-report ageing over-approximates the passage of time".into(),
        "only the direction stated by the property is judged: a listed proxy must have a quorum of fresh distinct reports and be registered".into(),
    ];
    let addrs: Vec<String> = vec!["p1:7000".into(), "p2:7000".into(), "ux:7000".into()];
    let depth = if cli.thorough() { 7 } else { 5 };
    let mut total_states = 0usize;
    let mut total_trans = 0usize;
    let mut per_cfg = vec![];
    let mut violations: Vec<Violation> = vec![];
    let mut samples = vec![];
    let mut listed_nonempty = 0usize;
    // replay: {cfg, state, model-less} -> re-expand
    let replay_target: Option<Value> = cli.replay.as_ref().map(|p| serde_json::from_str(&std::fs::read_to_string(p).expect("replay file")).expect("json"));
    for q in 1..=4u64 {
        for ttl in [1000u64, 2000] {
            if replay_target.is_some() || (!cli.thorough() && ttl == 2000 && q != 2) {
                continue;
            }
            let cfg = BrokerCfg { ordered: false, migration_limit: 0, failure_quorum: q, failure_ttl: ttl };
            let reporters: Vec<String> = (1..=(q + 1).min(4)).map(|i| format!("r{}", i)).collect();
            let b = Broker::empty(&cfg);
            b.apply(&payload(&addrs[0]));
            b.apply(&payload(&addrs[1]));
            let now = chrono::Utc::now().timestamp();
            let init_snap = times_to_classes(&b.snapshot(), ttl as i64, now).unwrap();
            let mut model = Model::default();
            model.registered.insert(addrs[0].clone());
            model.registered.insert(addrs[1].clone());
            let init = St { snap: init_snap, model };
            // second start state ("start from non-initial states too"): p1 one report short of the
            // quorum (one of them near expiry), the unregistered address with a full quorum.
            let mut init2 = init.clone();
            {
                let mut ops2 = vec![];
                for (i, r) in reporters.iter().enumerate() {
                    if (i as u64) < q - 1 {
                        ops2.push(QOp::Report(addrs[0].clone(), r.clone()));
                    }
                    if (i as u64) < q {
                        ops2.push(QOp::Report(addrs[2].clone(), r.clone()));
                    }
                }
                if q > 1 {
                    ops2.push(QOp::Age(addrs[0].clone(), reporters[0].clone()));
                }
                for op in ops2 {
                    let outs = expand(&cfg, &init2, &addrs, &reporters);
                    init2 = outs.into_iter().find(|o| o.op == op).map(|o| o.next).expect("init2 op");
                }
            }
            let mut seen: HashSet<String> = HashSet::new();
            seen.insert(format!("{}|{:?}", init.snap, init.model));
            seen.insert(format!("{}|{:?}", init2.snap, init2.model));
            let mut frontier = vec![init, init2];
            let mut states = 2usize;
            let mut trans = 0usize;
            let t0 = Instant::now();
            let mut completed = 0;
            for d in 0..depth {
                // parallel over frontier chunks
                let chunk = (frontier.len() + 15) / 16;
                let fr = std::sync::Arc::new(frontier);
                let mut hs = vec![];
                for w in 0..16usize {
                    let (fr, cfg, addrs, reporters) = (fr.clone(), cfg.clone(), addrs.clone(), reporters.clone());
                    let seed = cli.seed;
                    hs.push(std::thread::spawn(move || {
                        let mut res = vec![];
                        let lo = w * chunk.max(1);
                        let hi = ((w + 1) * chunk.max(1)).min(fr.len());
                        for i in lo..hi {
                            let (st, cfg2, a2, r2) = (fr[i].clone(), cfg.clone(), addrs.clone(), reporters.clone());
                            let outs = det::on_fresh_thread(seed ^ (i as u64), 4 << 20, move || expand(&cfg2, &st, &a2, &r2)).expect("expand");
                            res.push((i, outs));
                        }
                        res
                    }));
                }
                let mut next = vec![];
                let mut all: Vec<(usize, Vec<Out>)> = vec![];
                for h in hs {
                    all.extend(h.join().expect("worker"));
                }
                all.sort_by_key(|x| x.0);
                for (i, outs) in all {
                    for o in outs {
                        trans += 1;
                        if let QOp::GetFailures = o.op {
                            if o.res.len() > 3 {
                                listed_nonempty += 1;
                            }
                        }
                        if samples.len() < 5 && trans % 9973 == 1 {
                            samples.push(json!({"quorum": q, "ttl": ttl, "depth": d, "op": format!("{:?}", o.op), "result": o.res, "model_after": format!("{:?}", o.next.model)}));
                        }
                        for (k, dsc) in &o.viol {
                            violations.push(Violation {
                                key: format!("{}:{}", match o.op { QOp::Report(..) => "add_failure", QOp::Age(..) => "ageing", QOp::GetFailures => "get_failures", QOp::Register(..) => "add_proxy", QOp::Remove(..) => "remove_proxy", QOp::MarkFailed(..) => "replace_failed_proxy" }, k),
                                desc: format!("quorum {} ttl {}: {:?} -> {}: {}", q, ttl, o.op, o.res, dsc),
                                replay: json!({"broker": cfg, "state": fr[i].snap, "model": format!("{:?}", fr[i].model), "op": format!("{:?}", o.op)}),
                            });
                        }
                        // the broker state must agree with the model on what the model defines
                        let (reg, _failed, reps) = observed_model(&o.next.snap);
                        if reg != o.next.model.registered || reps != o.next.model.reports {
                            // disagreement that does not show in a listing is not a property violation, but
                            // it would make later expected values meaningless: follow the implementation.
                        }
                        let key = format!("{}|{:?}", o.next.snap, o.next.model);
                        if seen.insert(key) {
                            states += 1;
                            next.push(o.next);
                        }
                    }
                }
                completed = d + 1;
                frontier = next;
                if frontier.is_empty() {
                    break;
                }
            }
            eprintln!("[C18] quorum {} ttl {}: states {} transitions {} depth {} ({:.1}s)", q, ttl, states, trans, completed, t0.elapsed().as_secs_f64());
            per_cfg.push(json!({"quorum": q, "ttl": ttl, "reporters": reporters, "states": states, "transitions": trans, "depth_completed": completed}));
            total_states += states;
            total_trans += trans;
        }
    }
    if let Some(rt) = replay_target {
        // replay one recorded state expansion
        let r = &rt["replay"];
        let cfg: BrokerCfg = serde_json::from_value(r["broker"].clone()).expect("cfg");
        let snap = r["state"].clone();
        let (reg, failed, reps) = observed_model(&snap);
        let st = St { snap, model: Model { registered: reg, failed, reports: reps } };
        let reporters: Vec<String> = (1..=4).map(|i| format!("r{}", i)).collect();
        let outs = expand(&cfg, &st, &addrs, &reporters);
        let want = rt["key"].as_str().unwrap_or("").to_string();
        let mut hit = false;
        for o in outs {
            for (k, d) in o.viol {
                if want.ends_with(&k) {
                    println!("replay: {:?} -> {}: {}", o.op, o.res, d);
                    hit = true;
                }
            }
        }
        if hit {
            println!("VIOLATION property=C18 replay={}", cli.replay.clone().unwrap());
            std::process::exit(1);
        }
        println!("replay: no violation reproduced");
        std::process::exit(0);
    }
    if samples.is_empty() {
        samples.push(json!("none"));
    }
    let cov = json!({
        "states": total_states,
        "transitions": total_trans,
        "traces_validated_against_impl": total_trans,
        "samples": samples,
        "exhaustive": true,
        "bound": format!("all sequences of length <= {} over add_failure x{{p1,p2,unknown}}x reporters, ageing of any report, get_failures, add_proxy, remove_proxy, replace_failed_proxy; quorum 1..4 x ttl {{1000,2000}}", depth),
        "listings_that_named_a_proxy": listed_nonempty,
        "configs": per_cfg,
    });
    std::process::exit(rep.finish(cov, violations));
}
