//! simnet — real proxies on a harness-owned network.
//!
//! Every byte of traffic between components crosses this module: proxy->Redis and proxy->proxy
//! data connections are `ConnFactory::create_conn` streams/sinks, control connections are
//! `RedisClient::execute`.  Each request passes a *gate*: in immediate mode it is served at once;
//! in scheduled mode it stays pending until the explorer releases it (or drops / fails it).

use futures::channel::{mpsc, oneshot};
use futures::{Future, SinkExt, StreamExt, TryStreamExt};
use std::collections::BTreeMap;
use std::net::SocketAddr;
use std::num::NonZeroUsize;
use std::pin::Pin;
use std::sync::atomic::{AtomicBool, AtomicI64, AtomicU64, AtomicUsize, Ordering};
use std::sync::{Arc, Mutex, Weak};
use std::time::Duration;
use undermoon::common::batch::BatchStrategy;
use undermoon::common::track::TrackedFutureRegistry;
use undermoon::protocol::{
    Array, BinSafeStr, BulkStr, OptionalMulti, RedisClient, RedisClientError, RedisClientFactory,
    Resp, RespPacket, RespVec,
};
use undermoon::proxy::backend::{BackendError, ConnFactory, ConnSink, ConnStream, CreateConnResult};
use undermoon::proxy::command::{new_command_pair, Command};
use undermoon::proxy::executor::ForwardHandler;
use undermoon::proxy::manager::MetaMap;
use undermoon::proxy::service::{ClusterNodesVersion, ServerProxyConfig};
use undermoon::proxy::command::CmdReplyReceiver;
use undermoon::proxy::session::{CmdCtx, CmdCtxHandler, CmdHandler, CmdReplyFuture, Session};
use undermoon::proxy::slowlog::{SlowRequestLogger, TaskEvent};

pub type Cmd = Vec<Vec<u8>>;

pub fn cmd(parts: &[&str]) -> Cmd {
    parts.iter().map(|p| p.as_bytes().to_vec()).collect()
}

pub fn cmd_to_resp(c: &Cmd) -> RespVec {
    Resp::Arr(Array::Arr(c.iter().map(|b| Resp::Bulk(BulkStr::Str(b.clone()))).collect()))
}

pub fn resp_to_cmd(r: &RespVec) -> Option<Cmd> {
    match r {
        Resp::Arr(Array::Arr(v)) => v
            .iter()
            .map(|e| match e {
                Resp::Bulk(BulkStr::Str(s)) => Some(s.clone()),
                _ => None,
            })
            .collect(),
        _ => None,
    }
}

pub fn show(b: &[u8]) -> String {
    if b.len() > 48 {
        format!("{}..({}B)", String::from_utf8_lossy(&b[..32]), b.len())
    } else {
        String::from_utf8_lossy(b).replace('\r', "\\r").replace('\n', "\\n")
    }
}

pub fn show_cmd(c: &Cmd) -> String {
    c.iter().map(|b| show(b)).collect::<Vec<_>>().join(" ")
}

pub fn show_resp(r: &RespVec) -> String {
    match r {
        Resp::Simple(s) => format!("+{}", show(s)),
        Resp::Error(s) => format!("-{}", show(s)),
        Resp::Integer(s) => format!(":{}", show(s)),
        Resp::Bulk(BulkStr::Nil) => "$nil".into(),
        Resp::Bulk(BulkStr::Str(s)) => format!("${}", show(s)),
        Resp::Arr(Array::Nil) => "*nil".into(),
        Resp::Arr(Array::Arr(v)) => format!("[{}]", v.iter().map(show_resp).collect::<Vec<_>>().join(", ")),
    }
}

// ------------------------------------------------------------------------------------------------
// Redis stand-in

#[derive(Clone, Debug, PartialEq, Eq)]
pub struct Entry {
    pub val: Vec<u8>,
    pub expire_at: Option<u64>, // simulated ms
    pub seq: u64,               // insertion number of the key (drives SCAN order)
}

pub type Script = Box<dyn FnMut(&Cmd) -> Option<RespVec> + Send>;

pub struct RedisNode {
    pub addr: String,
    pub data: BTreeMap<Vec<u8>, Entry>,
    pub slaveof: Option<String>,
    /// optional override: return Some(reply) to answer instead of the built-in behaviour
    pub script: Option<Script>,
    next_seq: u64,
}

fn ok() -> RespVec {
    Resp::Simple(b"OK".to_vec())
}
fn int(n: i64) -> RespVec {
    Resp::Integer(n.to_string().into_bytes())
}
fn err(s: &str) -> RespVec {
    Resp::Error(s.as_bytes().to_vec())
}
fn bulk(v: &[u8]) -> RespVec {
    Resp::Bulk(BulkStr::Str(v.to_vec()))
}
fn nil() -> RespVec {
    Resp::Bulk(BulkStr::Nil)
}
fn parse_i64(b: &[u8]) -> Option<i64> {
    std::str::from_utf8(b).ok()?.parse::<i64>().ok()
}

const DUMP_PREFIX: &[u8] = b"DUMP1:";

impl RedisNode {
    pub fn new(addr: &str) -> RedisNode {
        RedisNode { addr: addr.to_string(), data: BTreeMap::new(), slaveof: None, script: None, next_seq: 1 }
    }

    fn live(&mut self, key: &[u8], now: u64) -> Option<&mut Entry> {
        let expired = self.data.get(key).map(|e| e.expire_at.map(|t| t <= now).unwrap_or(false)).unwrap_or(false);
        if expired {
            self.data.remove(key);
        }
        self.data.get_mut(key)
    }

    pub fn keys(&mut self, now: u64) -> Vec<Vec<u8>> {
        let ks: Vec<Vec<u8>> = self.data.keys().cloned().collect();
        ks.into_iter().filter(|k| self.live(k, now).is_some()).collect()
    }

    fn set(&mut self, key: &[u8], val: &[u8], expire_at: Option<u64>) {
        let seq = match self.data.get(key) {
            Some(e) => e.seq,
            None => {
                self.next_seq += 1;
                self.next_seq - 1
            }
        };
        self.data.insert(key.to_vec(), Entry { val: val.to_vec(), expire_at, seq });
    }

    pub fn exec(&mut self, c: &Cmd, now: u64) -> RespVec {
        if let Some(s) = self.script.as_mut() {
            if let Some(r) = s(c) {
                return r;
            }
        }
        if c.is_empty() {
            return err("ERR empty command");
        }
        let name = String::from_utf8_lossy(&c[0]).to_uppercase();
        let argn = c.len();
        let wrong = || err(&format!("ERR wrong number of arguments for '{}' command", name.to_lowercase()));
        match name.as_str() {
            "PING" => Resp::Simple(b"PONG".to_vec()),
            "SELECT" | "CONFIG" | "CLIENT" | "READONLY" => ok(),
            "INFO" => bulk(b"role:master\r\n"),
            "SLAVEOF" | "REPLICAOF" => {
                if argn != 3 {
                    return wrong();
                }
                let h = String::from_utf8_lossy(&c[1]).to_string();
                let p = String::from_utf8_lossy(&c[2]).to_string();
                self.slaveof = if h.eq_ignore_ascii_case("NO") { None } else { Some(format!("{}:{}", h, p)) };
                ok()
            }
            "GET" => {
                if argn != 2 {
                    return wrong();
                }
                match self.live(&c[1], now) {
                    Some(e) => bulk(&e.val),
                    None => nil(),
                }
            }
            "SET" => {
                if argn < 3 {
                    return wrong();
                }
                let mut nx = false;
                let mut xx = false;
                let mut exp: Option<u64> = None;
                let mut i = 3;
                while i < argn {
                    let o = String::from_utf8_lossy(&c[i]).to_uppercase();
                    match o.as_str() {
                        "NX" => nx = true,
                        "XX" => xx = true,
                        "EX" | "PX" => {
                            let n = match c.get(i + 1).and_then(|b| parse_i64(b)) {
                                Some(n) if n > 0 => n as u64,
                                _ => return err("ERR invalid expire time in set"),
                            };
                            exp = Some(now + if o == "EX" { n * 1000 } else { n });
                            i += 1;
                        }
                        _ => return err("ERR syntax error"),
                    }
                    i += 1;
                }
                let exists = self.live(&c[1], now).is_some();
                if (nx && exists) || (xx && !exists) {
                    return nil();
                }
                self.set(&c[1], &c[2], exp);
                ok()
            }
            "SETNX" => {
                if argn != 3 {
                    return wrong();
                }
                if self.live(&c[1], now).is_some() {
                    int(0)
                } else {
                    self.set(&c[1], &c[2], None);
                    int(1)
                }
            }
            "SETEX" | "PSETEX" => {
                if argn != 4 {
                    return wrong();
                }
                let n = match parse_i64(&c[2]) {
                    Some(n) if n > 0 => n as u64,
                    _ => return err("ERR invalid expire time in setex"),
                };
                self.set(&c[1], &c[3], Some(now + if name == "SETEX" { n * 1000 } else { n }));
                ok()
            }
            "GETSET" => {
                if argn != 3 {
                    return wrong();
                }
                let old = self.live(&c[1], now).map(|e| e.val.clone());
                self.set(&c[1], &c[2], None);
                old.map(|v| bulk(&v)).unwrap_or_else(nil)
            }
            "MGET" => Resp::Arr(Array::Arr(c[1..].iter().map(|k| self.live(k, now).map(|e| bulk(&e.val)).unwrap_or_else(nil)).collect())),
            "MSET" | "MSETNX" => {
                if argn < 3 || argn % 2 == 0 {
                    return wrong();
                }
                if name == "MSETNX" && c[1..].chunks(2).any(|kv| self.live(&kv[0], now).is_some()) {
                    return int(0);
                }
                for kv in c[1..].chunks(2) {
                    self.set(&kv[0], &kv[1], None);
                }
                if name == "MSET" {
                    ok()
                } else {
                    int(1)
                }
            }
            "DEL" | "UNLINK" => {
                let mut n = 0;
                for k in &c[1..] {
                    if self.live(k, now).is_some() {
                        self.data.remove(k);
                        n += 1;
                    }
                }
                int(n)
            }
            "EXISTS" => {
                let mut n = 0;
                for k in &c[1..] {
                    if self.live(k, now).is_some() {
                        n += 1;
                    }
                }
                int(n)
            }
            "INCR" | "DECR" | "INCRBY" | "DECRBY" => {
                if argn < 2 {
                    return wrong();
                }
                let d = match name.as_str() {
                    "INCR" => 1,
                    "DECR" => -1,
                    _ => match c.get(2).and_then(|b| parse_i64(b)) {
                        Some(n) => {
                            if name == "INCRBY" {
                                n
                            } else {
                                -n
                            }
                        }
                        None => return err("ERR value is not an integer or out of range"),
                    },
                };
                let (cur, exp) = match self.live(&c[1], now) {
                    Some(e) => match parse_i64(&e.val) {
                        Some(n) => (n, e.expire_at),
                        None => return err("ERR value is not an integer or out of range"),
                    },
                    None => (0, None),
                };
                let nv = cur + d;
                self.set(&c[1], nv.to_string().as_bytes(), exp);
                int(nv)
            }
            "APPEND" => {
                if argn != 3 {
                    return wrong();
                }
                let (mut v, exp) = self.live(&c[1], now).map(|e| (e.val.clone(), e.expire_at)).unwrap_or((vec![], None));
                v.extend_from_slice(&c[2]);
                let n = v.len();
                self.set(&c[1], &v, exp);
                int(n as i64)
            }
            "STRLEN" => match self.live(&c[1], now) {
                Some(e) => int(e.val.len() as i64),
                None => int(0),
            },
            "EXPIRE" | "PEXPIRE" => {
                if argn != 3 {
                    return wrong();
                }
                let n = match parse_i64(&c[2]) {
                    Some(n) => n,
                    None => return err("ERR value is not an integer or out of range"),
                };
                let ms = if name == "EXPIRE" { n * 1000 } else { n };
                if self.live(&c[1], now).is_none() {
                    return int(0);
                }
                if ms <= 0 {
                    self.data.remove(&c[1]);
                } else if let Some(e) = self.data.get_mut(&c[1]) {
                    e.expire_at = Some(now + ms as u64);
                }
                int(1)
            }
            "PERSIST" => match self.live(&c[1], now) {
                Some(e) if e.expire_at.is_some() => {
                    e.expire_at = None;
                    int(1)
                }
                _ => int(0),
            },
            "PTTL" | "TTL" => {
                if argn != 2 {
                    return wrong();
                }
                match self.live(&c[1], now) {
                    None => int(-2),
                    Some(e) => match e.expire_at {
                        None => int(-1),
                        Some(t) => {
                            let ms = t - now;
                            int(if name == "PTTL" { ms as i64 } else { ((ms + 500) / 1000) as i64 })
                        }
                    },
                }
            }
            "DUMP" => {
                if argn != 2 {
                    return wrong();
                }
                match self.live(&c[1], now) {
                    None => nil(),
                    Some(e) => {
                        let mut v = DUMP_PREFIX.to_vec();
                        v.extend_from_slice(&e.val);
                        bulk(&v)
                    }
                }
            }
            "RESTORE" => {
                if argn < 4 {
                    return wrong();
                }
                let ttl = match parse_i64(&c[2]) {
                    Some(n) if n >= 0 => n as u64,
                    _ => return err("ERR Invalid TTL value, must be >= 0"),
                };
                let replace = c[4..].iter().any(|o| o.eq_ignore_ascii_case(b"REPLACE"));
                if !c[3].starts_with(DUMP_PREFIX) {
                    return err("ERR DUMP payload version or checksum are wrong");
                }
                if self.live(&c[1], now).is_some() && !replace {
                    return err("BUSYKEY Target key name already exists.");
                }
                let val = c[3][DUMP_PREFIX.len()..].to_vec();
                self.set(&c[1], &val, if ttl == 0 { None } else { Some(now.saturating_add(ttl)) });
                ok()
            }
            "SCAN" => {
                if argn < 2 {
                    return wrong();
                }
                let mut count = 10usize;
                let mut i = 2;
                while i + 1 < argn {
                    if c[i].eq_ignore_ascii_case(b"COUNT") {
                        count = parse_i64(&c[i + 1]).unwrap_or(10).max(1) as usize;
                    }
                    i += 2;
                }
                // Keys are visited in insertion order; the cursor is the insertion number to
                // continue from.  A key present during the whole scan is therefore returned exactly
                // once whatever is deleted or inserted meanwhile (Redis' SCAN guarantee; keys
                // inserted during the scan get larger numbers and may be returned, as in Redis).
                let start = match parse_i64(&c[1]) {
                    Some(n) if n >= 0 => n as u64,
                    _ => return err("ERR invalid cursor"),
                };
                let live = self.keys(now);
                let mut items: Vec<(u64, Vec<u8>)> = live.into_iter().filter_map(|k| self.data.get(&k).map(|e| (e.seq, k))).filter(|(s, _)| *s >= start).collect();
                items.sort();
                let more = items.len() > count;
                items.truncate(count);
                let cursor = if more { items.last().map(|(s, _)| s + 1).unwrap_or(0) } else { 0 };
                Resp::Arr(Array::Arr(vec![bulk(cursor.to_string().as_bytes()), Resp::Arr(Array::Arr(items.iter().map(|(_, k)| bulk(k)).collect()))]))
            }
            "EVAL" => {
                // two fixed scripts: "GETALL" returns the values of all KEYS; "SETALL" sets every KEY to ARGV[1]
                if argn < 3 {
                    return wrong();
                }
                let nk = parse_i64(&c[2]).unwrap_or(0).max(0) as usize;
                if argn < 3 + nk {
                    return err("ERR Number of keys can't be greater than number of args");
                }
                let keys = c[3..3 + nk].to_vec();
                let script = String::from_utf8_lossy(&c[1]).to_uppercase();
                if script == "SETALL" {
                    let v = c.get(3 + nk).cloned().unwrap_or_default();
                    for k in &keys {
                        self.set(k, &v, None);
                    }
                    ok()
                } else {
                    Resp::Arr(Array::Arr(keys.iter().map(|k| self.live(k, now).map(|e| bulk(&e.val)).unwrap_or_else(nil)).collect()))
                }
            }
            "LPOP" | "RPOP" => nil(),
            "COMMAND" => Resp::Arr(Array::Arr(vec![])),
            _ => err(&format!("ERR unknown command '{}'", name)),
        }
    }
}

// ------------------------------------------------------------------------------------------------
// world

#[derive(Clone, Debug)]
pub struct Event {
    pub seq: u64,
    pub time_ms: u64,
    pub kind: &'static str, // "redis" | "proxy" | "client" | "fault"
    pub from: String,
    pub at: String,
    pub cmd: Cmd,
    pub reply: String,
}

#[derive(Clone, Debug)]
pub struct ReqInfo {
    pub id: u64,
    pub conn: String, // connection identity (owner -> target #n); FIFO is kept per connection
    pub control: bool,
    pub from: String,
    pub to: String,
    pub cmds: Vec<Cmd>,
}

#[derive(Clone, Copy, Debug, PartialEq, Eq)]
pub enum Gate {
    Pass,
    Hold,
    Fail,
}

#[derive(Clone, Copy, Debug, PartialEq, Eq)]
pub enum Release {
    Serve,
    /// the request never reaches the target; the caller sees a broken connection
    DropRequest,
    /// the request is executed, the reply is lost; the caller sees a broken connection
    DropReply,
    /// the request is executed but its reply arrives after the caller's timeout: the caller sees a
    /// timeout, the connection stays open and the unread reply stays on it (control connections)
    LateReply,
}

pub struct Pending {
    pub info: ReqInfo,
    tx: oneshot::Sender<Release>,
}

pub type GateFn = Box<dyn FnMut(&ReqInfo) -> Gate + Send>;

/// Decision of the asynchronous gate (used for coordinator calls in C07): the gate future may do
/// arbitrary work first (restart a proxy, run another coordinator's round, never return = crash).
#[derive(Clone, Copy, Debug, PartialEq, Eq)]
pub enum Verdict {
    Serve,
    DropRequest,
    DropReply,
    /// executed twice at the target; the caller gets the second reply
    Duplicate,
    /// the caller sees a broken connection now; the request is executed when the harness calls
    /// `deliver_delayed` (reply discarded)
    Delay,
}

pub type AsyncGateFn = Arc<dyn Fn(ReqInfo) -> Pin<Box<dyn Future<Output = Verdict> + Send>> + Send + Sync>;

pub struct WorldState {
    pub redis: BTreeMap<String, RedisNode>,
    pub proxies: BTreeMap<String, Arc<ProxyNode>>,
    pub down: std::collections::BTreeSet<String>,
    pub log: Vec<Event>,
    pub activity: u64,
    pub gate: Option<GateFn>,
    pub agate: Option<AsyncGateFn>,
    pub delayed: Vec<ReqInfo>,
    /// replies that arrived after their caller gave up, per connection id (unread bytes of a socket)
    pub late: BTreeMap<String, Vec<RespVec>>,
    pub pending: Vec<Pending>,
    next_id: u64,
    conn_seq: u64,
    pub start: tokio::time::Instant,
}

pub struct WorldInner {
    pub st: Mutex<WorldState>,
}

#[derive(Clone)]
pub struct World(pub Arc<WorldInner>);

pub struct ProxyNode {
    pub address: String,
    pub handler: ForwardHandler<SimClientFactory, SimConnFactory>,
    pub authenticated: AtomicBool,
    pub sessions: AtomicUsize,
    meta_map: undermoon::proxy::manager::SharedMetaMap<SimConnFactory>,
    pub config: Arc<ServerProxyConfig>,
    pub slow_logger: Arc<SlowRequestLogger>,
}

/// What `Session` owns as its `CmdCtxHandler` (the production service hands it the shared
/// `ForwardHandler`; here the node keeps ownership).
struct NodeRef(Arc<ProxyNode>);

impl CmdCtxHandler for NodeRef {
    fn handle_cmd_ctx(&self, cmd_ctx: CmdCtx, result_receiver: CmdReplyReceiver, authenticated: &AtomicBool) -> CmdReplyFuture {
        self.0.handler.handle_cmd_ctx(cmd_ctx, result_receiver, authenticated)
    }
}

impl Drop for ProxyNode {
    fn drop(&mut self) {
        // The installed MetaMap refers back to the shared map through the blocking-queue retry
        // sender (a reference cycle that is harmless in a long-living proxy); empty it so that the
        // thousands of short-lived proxies of an exploration are actually freed.
        self.meta_map.store(Arc::new(MetaMap::empty()));
    }
}

#[derive(Clone, Debug)]
pub struct ProxyOpts {
    pub active_redirection: bool,
    pub backend_conn_num: usize,
    pub batch: BatchStrategy,
    pub nodes_version: ClusterNodesVersion,
    pub low_flush_ns: u64,
    pub max_redirections: usize,
}

impl Default for ProxyOpts {
    fn default() -> Self {
        ProxyOpts { active_redirection: false, backend_conn_num: 1, batch: BatchStrategy::Disabled, nodes_version: ClusterNodesVersion::V2, low_flush_ns: 0, max_redirections: 0 }
    }
}

pub fn proxy_config_pub(address: &str, o: &ProxyOpts) -> ServerProxyConfig {
    proxy_config(address, o)
}

fn proxy_config(address: &str, o: &ProxyOpts) -> ServerProxyConfig {
    let host = address.split(':').next().unwrap_or("127.0.0.1").to_string();
    ServerProxyConfig {
        address: address.to_string(),
        announce_address: address.to_string(),
        announce_host: host,
        slowlog_len: NonZeroUsize::new(16).unwrap(),
        // every request is sampled and recorded by the slow log (both settings are reachable by
        // any client through CONFIG SET), so that the slow-log path sees every input of every check
        slowlog_log_slower_than: AtomicI64::new(-1),
        slowlog_sample_rate: AtomicU64::new(1),
        thread_number: NonZeroUsize::new(1).unwrap(),
        backend_conn_num: NonZeroUsize::new(o.backend_conn_num.max(1)).unwrap(),
        active_redirection: o.active_redirection,
        max_redirections: NonZeroUsize::new(o.max_redirections),
        default_redirection_address: None,
        backend_batch_strategy: o.batch,
        backend_flush_size: NonZeroUsize::new(1024).unwrap(),
        backend_low_flush_interval: Duration::from_nanos(o.low_flush_ns),
        backend_high_flush_interval: Duration::from_millis(1),
        session_timeout: None,
        backend_timeout: Duration::from_secs(3600),
        password: None,
        command_cluster_nodes_version: o.nodes_version,
    }
}

impl World {
    pub fn new() -> World {
        World(Arc::new(WorldInner {
            st: Mutex::new(WorldState {
                redis: BTreeMap::new(),
                proxies: BTreeMap::new(),
                down: Default::default(),
                log: vec![],
                activity: 0,
                gate: None,
                agate: None,
                delayed: vec![],
                late: BTreeMap::new(),
                pending: vec![],
                next_id: 0,
                conn_seq: 0,
                start: tokio::time::Instant::now(),
            }),
        }))
    }

    pub fn now_ms(&self) -> u64 {
        let st = self.0.st.lock().unwrap();
        tokio::time::Instant::now().duration_since(st.start).as_millis() as u64
    }

    pub fn add_redis(&self, addr: &str) {
        self.0.st.lock().unwrap().redis.insert(addr.to_string(), RedisNode::new(addr));
    }

    pub fn with_redis<T>(&self, addr: &str, f: impl FnOnce(&mut RedisNode, u64) -> T) -> Option<T> {
        let now = self.now_ms();
        let mut st = self.0.st.lock().unwrap();
        st.redis.get_mut(addr).map(|r| f(r, now))
    }

    /// Create (or replace = restart with empty state) a proxy at `address`.
    pub fn add_proxy(&self, address: &str, opts: &ProxyOpts) -> Arc<ProxyNode> {
        let config = Arc::new(proxy_config(address, opts));
        let cf = Arc::new(SimClientFactory { world: Arc::downgrade(&self.0), owner: address.to_string() });
        let conn = Arc::new(SimConnFactory { world: Arc::downgrade(&self.0), owner: address.to_string() });
        let meta_map = Arc::new(arc_swap::ArcSwap::new(Arc::new(MetaMap::empty())));
        let reg = Arc::new(TrackedFutureRegistry::default());
        let (stopped, _rx) = mpsc::unbounded();
        let slow_logger = Arc::new(SlowRequestLogger::new(config.clone()));
        let handler = ForwardHandler::new(config.clone(), cf, slow_logger.clone(), meta_map.clone(), conn, reg, stopped);
        let node = Arc::new(ProxyNode { address: address.to_string(), handler, authenticated: AtomicBool::new(false), sessions: AtomicUsize::new(0), meta_map, config, slow_logger });
        self.0.st.lock().unwrap().proxies.insert(address.to_string(), node.clone());
        node
    }

    pub fn conn_factory(&self, owner: &str) -> Arc<SimConnFactory> {
        Arc::new(SimConnFactory { world: Arc::downgrade(&self.0), owner: owner.to_string() })
    }

    pub fn client_factory(&self, owner: &str) -> Arc<SimClientFactory> {
        Arc::new(SimClientFactory { world: Arc::downgrade(&self.0), owner: owner.to_string() })
    }

    pub fn set_gate(&self, g: Option<GateFn>) {
        self.0.st.lock().unwrap().gate = g;
    }

    pub fn set_async_gate(&self, g: Option<AsyncGateFn>) {
        self.0.st.lock().unwrap().agate = g;
    }

    /// Execute every delayed request now (in the given order), discarding the replies.
    pub async fn deliver_delayed(&self, reverse: bool) -> usize {
        let mut d: Vec<ReqInfo> = std::mem::take(&mut self.0.st.lock().unwrap().delayed);
        if reverse {
            d.reverse();
        }
        let n = d.len();
        for info in d {
            if self.0.st.lock().unwrap().down.contains(&info.to) {
                continue;
            }
            for c in &info.cmds {
                let _ = self.execute_at(&format!("{}(late)", info.from), &info.to, c).await;
            }
        }
        n
    }

    pub fn activity(&self) -> u64 {
        self.0.st.lock().unwrap().activity
    }

    pub fn bump(&self) {
        self.0.st.lock().unwrap().activity += 1;
    }

    pub fn pending_infos(&self) -> Vec<ReqInfo> {
        self.0.st.lock().unwrap().pending.iter().map(|p| p.info.clone()).collect()
    }

    /// Release the pending request with this id.
    pub fn release(&self, id: u64, how: Release) -> bool {
        let mut st = self.0.st.lock().unwrap();
        if let Some(i) = st.pending.iter().position(|p| p.info.id == id) {
            let p = st.pending.remove(i);
            st.activity += 1;
            let _ = p.tx.send(how);
            true
        } else {
            false
        }
    }

    pub fn log_len(&self) -> usize {
        self.0.st.lock().unwrap().log.len()
    }

    pub fn events(&self) -> Vec<Event> {
        self.0.st.lock().unwrap().log.clone()
    }

    pub fn events_since(&self, mark: usize) -> Vec<Event> {
        let st = self.0.st.lock().unwrap();
        st.log.get(mark..).map(|s| s.to_vec()).unwrap_or_default()
    }

    fn record(&self, kind: &'static str, from: &str, at: &str, c: &Cmd, reply: String) {
        let t = self.now_ms();
        let mut st = self.0.st.lock().unwrap();
        let seq = st.log.len() as u64;
        st.activity += 1;
        st.log.push(Event { seq, time_ms: t, kind, from: from.to_string(), at: at.to_string(), cmd: c.clone(), reply });
    }

    /// One request on a connection: gate, then execute at the target.
    pub async fn request(&self, conn: &str, control: bool, from: &str, to: &str, cmds: Vec<Cmd>) -> Result<Vec<RespVec>, ()> {
        let agate = {
            let st = self.0.st.lock().unwrap();
            if from.starts_with("coord") && !st.down.contains(to) {
                st.agate.clone()
            } else {
                None
            }
        };
        if let Some(g) = agate {
            let id = {
                let mut st = self.0.st.lock().unwrap();
                st.next_id += 1;
                st.activity += 1;
                st.next_id
            };
            let info = ReqInfo { id, conn: conn.to_string(), control, from: from.to_string(), to: to.to_string(), cmds: cmds.clone() };
            let verdict = g(info.clone()).await;
            let first = cmds.first().cloned().unwrap_or_default();
            match verdict {
                Verdict::DropRequest => {
                    self.record("fault", from, to, &first, "request lost".into());
                    return Err(());
                }
                Verdict::Delay => {
                    self.record("fault", from, to, &first, "request delayed".into());
                    self.0.st.lock().unwrap().delayed.push(info);
                    return Err(());
                }
                _ => {}
            }
            if self.0.st.lock().unwrap().down.contains(to) {
                self.record("fault", from, to, &first, "connection failed".into());
                return Err(());
            }
            let mut replies = vec![];
            for round in 0..(if verdict == Verdict::Duplicate { 2 } else { 1 }) {
                replies.clear();
                if round == 1 {
                    self.record("fault", from, to, &first, "request duplicated".into());
                }
                for c in &cmds {
                    replies.push(self.execute_at(from, to, c).await?);
                }
            }
            if verdict == Verdict::DropReply {
                self.record("fault", from, to, &first, "reply lost".into());
                return Err(());
            }
            return Ok(replies);
        }
        let (decision, id) = {
            let mut st = self.0.st.lock().unwrap();
            st.next_id += 1;
            st.activity += 1;
            let id = st.next_id;
            let info = ReqInfo { id, conn: conn.to_string(), control, from: from.to_string(), to: to.to_string(), cmds: cmds.clone() };
            if st.down.contains(to) {
                (Gate::Fail, id)
            } else {
                let d = match st.gate.as_mut() {
                    Some(g) => g(&info),
                    None => Gate::Pass,
                };
                (d, id)
            }
        };
        let mut how = Release::Serve;
        match decision {
            Gate::Fail => {
                self.record("fault", from, to, cmds.first().unwrap_or(&vec![]), "connection failed".into());
                return Err(());
            }
            Gate::Hold => {
                let (tx, rx) = oneshot::channel();
                {
                    let mut st = self.0.st.lock().unwrap();
                    let info = ReqInfo { id, conn: conn.to_string(), control, from: from.to_string(), to: to.to_string(), cmds: cmds.clone() };
                    st.pending.push(Pending { info, tx });
                }
                how = rx.await.map_err(|_| ())?;
            }
            Gate::Pass => {}
        }
        if how == Release::DropRequest {
            self.record("fault", from, to, cmds.first().unwrap_or(&vec![]), "request lost".into());
            return Err(());
        }
        let mut replies = vec![];
        for c in &cmds {
            replies.push(self.execute_at(from, to, c).await?);
        }
        if how == Release::DropReply {
            self.record("fault", from, to, cmds.first().unwrap_or(&vec![]), "reply lost".into());
            return Err(());
        }
        if how == Release::LateReply {
            self.record("fault", from, to, cmds.first().unwrap_or(&vec![]), "reply late (after the caller's timeout)".into());
            self.0.st.lock().unwrap().late.entry(conn.to_string()).or_default().extend(replies);
            return Err(());
        }
        Ok(replies)
    }

    /// The late replies that have meanwhile arrived on this connection.
    pub fn take_late(&self, conn: &str) -> Vec<RespVec> {
        self.0.st.lock().unwrap().late.remove(conn).unwrap_or_default()
    }

    async fn execute_at(&self, from: &str, to: &str, c: &Cmd) -> Result<RespVec, ()> {
        let now = self.now_ms();
        let proxy = {
            let mut st = self.0.st.lock().unwrap();
            if let Some(r) = st.redis.get_mut(to) {
                let reply = r.exec(c, now);
                drop(st);
                self.record("redis", from, to, c, show_resp(&reply));
                return Ok(reply);
            }
            st.proxies.get(to).cloned()
        };
        match proxy {
            Some(p) => {
                let reply = p.handle(cmd_to_resp(c)).await;
                self.record("proxy", from, to, c, show_resp(&reply));
                Ok(reply)
            }
            None => {
                self.record("fault", from, to, c, "no such endpoint".into());
                Err(())
            }
        }
    }

    /// A client command sent to a proxy (not gated: the explorer decides when clients act).
    pub async fn client(&self, proxy: &str, c: &Cmd) -> RespVec {
        let p = self.0.st.lock().unwrap().proxies.get(proxy).cloned();
        match p {
            Some(p) => {
                let reply = p.handle(cmd_to_resp(c)).await;
                self.record("client", "client", proxy, c, show_resp(&reply));
                reply
            }
            None => err("ERR no such proxy"),
        }
    }

    /// Let every spawned task run until nothing observable happens for `rounds` consecutive yields.
    pub async fn settle(&self) {
        let mut quiet = 0;
        let mut last = self.activity();
        let mut total = 0;
        while quiet < 8 && total < 100_000 {
            tokio::task::yield_now().await;
            total += 1;
            let a = self.activity();
            if a == last {
                quiet += 1;
            } else {
                quiet = 0;
                last = a;
            }
        }
    }

    pub async fn advance_ms(&self, ms: u64) {
        for _ in 0..ms {
            tokio::time::advance(Duration::from_millis(1)).await;
            self.settle().await;
        }
    }
}

impl Default for World {
    fn default() -> Self {
        Self::new()
    }
}

impl ProxyNode {
    /// One request through the production per-request path of a client session: the packet is
    /// what the session decoder produces from the request bytes (an *indexed* packet, like every
    /// request that arrives over TCP), the real `Session` creates the `CmdCtx` (slow log sampling
    /// included), the real `ForwardHandler` handles it, and the reply is post-processed exactly like
    /// `handle_session` does (`WaitDone` event, `handle_slowlog`).  `handle_session` itself (socket
    /// framing, reply FIFO) is the subject of C08.
    pub async fn handle_packet(self: &Arc<Self>, packet: Box<RespPacket>) -> Box<RespPacket> {
        let sid = self.sessions.fetch_add(1, Ordering::SeqCst);
        let session = Session::new(sid, NodeRef(self.clone()), self.slow_logger.clone(), self.config.clone());
        let fut = session.handle_cmd(Command::new(packet));
        match fut.await {
            Ok(task_reply) => {
                let (request, packet, mut slowlog) = (*task_reply).into_inner();
                slowlog.log_event(TaskEvent::WaitDone);
                session.handle_slowlog(request, slowlog);
                packet
            }
            Err(e) => Box::new(RespPacket::from_resp_vec(Resp::Error(format!("Err cmd error {:?}", e).into_bytes()))),
        }
    }

    pub async fn handle(self: &Arc<Self>, r: RespVec) -> RespVec {
        self.handle_packet(to_session_packet(r)).await.into_resp_vec()
    }

    /// The old entry (a `RespPacket::Data` request straight into the handler, no session, no slow
    /// log) - kept for differential runs.
    pub async fn handle_data_packet(&self, r: RespVec) -> RespVec {
        let cmd = Command::new(Box::new(RespPacket::Data(r)));
        let (s, rx) = new_command_pair(&cmd);
        let sid = self.sessions.fetch_add(1, Ordering::SeqCst);
        let ctx = CmdCtx::new(cmd, s, sid, false);
        let fut = self.handler.handle_cmd_ctx(ctx, rx, &self.authenticated);
        match fut.await {
            Ok(reply) => {
                let (_, packet, _) = (*reply).into_inner();
                packet.into_resp_vec()
            }
            Err(e) => Resp::Error(format!("Err cmd error {:?}", e).into_bytes()),
        }
    }
}

/// The bytes the real codec writes for this packet, parsed as a command by the receiving end.
pub fn wire_request(packet: RespPacket) -> Option<Cmd> {
    use undermoon::protocol::{DecodedPacket, EncodedPacket};
    let mut bytes: Vec<u8> = vec![];
    let (_n, _f) = packet.encode(|b: &[u8]| bytes.extend_from_slice(b)).ok()?;
    let mut buf = bytes::BytesMut::from(&bytes[..]);
    match RespVec::decode(&mut buf, ()) {
        Ok(Some(r)) if buf.is_empty() => resp_to_cmd(&r),
        _ => None,
    }
}

/// Reply value -> the packet the real backend-connection decoder yields for its bytes.
pub fn wire_reply(r: RespVec) -> RespPacket {
    use undermoon::protocol::DecodedPacket;
    let mut bytes: Vec<u8> = vec![];
    if undermoon::protocol::encode_resp(&mut bytes, &r).is_err() {
        return RespPacket::Data(r);
    }
    let mut buf = bytes::BytesMut::from(&bytes[..]);
    match RespPacket::decode(&mut buf, ()) {
        Ok(Some(p)) if buf.is_empty() => p,
        _ => RespPacket::Data(r),
    }
}

/// Request bytes -> the packet the session decoder yields for them.
pub fn to_session_packet(r: RespVec) -> Box<RespPacket> {
    use tokio_util::codec::Decoder;
    let mut bytes: Vec<u8> = vec![];
    if undermoon::protocol::encode_resp(&mut bytes, &r).is_err() {
        return Box::new(RespPacket::Data(r));
    }
    let (encoder, decoder) = undermoon::protocol::new_simple_packet_codec::<Box<RespPacket>, Box<RespPacket>>();
    let mut codec = undermoon::protocol::RespCodec::new(encoder, decoder);
    let mut buf = bytes::BytesMut::from(&bytes[..]);
    match codec.decode(&mut buf) {
        Ok(Some(p)) if buf.is_empty() => p,
        _ => Box::new(RespPacket::Data(r)),
    }
}

// ------------------------------------------------------------------------------------------------
// factories handed to the real code

pub struct SimConnFactory {
    world: Weak<WorldInner>,
    owner: String,
}

impl ConnFactory for SimConnFactory {
    type Pkt = RespPacket;

    fn create_conn(&self, addr: SocketAddr) -> Pin<Box<dyn Future<Output = CreateConnResult<Self::Pkt>> + Send>> {
        let world = self.world.clone();
        let owner = self.owner.clone();
        let target = addr.to_string();
        Box::pin(async move {
            let w = match world.upgrade() {
                Some(w) => World(w),
                None => return Err(BackendError::Canceled),
            };
            let conn_id = {
                let mut st = w.0.st.lock().unwrap();
                if st.down.contains(&target) || (!st.redis.contains_key(&target) && !st.proxies.contains_key(&target)) {
                    return Err(BackendError::Io(std::io::Error::new(std::io::ErrorKind::ConnectionRefused, "refused")));
                }
                st.conn_seq += 1;
                st.activity += 1;
                format!("{}->{}#{}", owner, target, st.conn_seq)
            };
            let (sender, receiver) = mpsc::unbounded::<RespPacket>();
            let stream = receiver.then(move |packet: RespPacket| {
                let w = w.clone();
                let (owner, target, conn_id) = (owner.clone(), target.clone(), conn_id.clone());
                async move {
                    // what travels is what the real connection codec would write: the packet's own
                    // encoding; the peer parses those bytes, and its reply comes back as the packet
                    // the real connection decoder yields for the reply bytes (an indexed packet)
                    let c = match wire_request(packet) {
                        Some(c) => c,
                        None => return Ok(wire_reply(err("ERR Protocol error: expected array of bulk strings"))),
                    };
                    match w.request(&conn_id, false, &owner, &target, vec![c]).await {
                        Ok(mut v) => Ok(wire_reply(v.pop().unwrap_or_else(|| err("ERR empty")))),
                        Err(()) => Err(BackendError::Io(std::io::Error::new(std::io::ErrorKind::ConnectionReset, "reset"))),
                    }
                }
            });
            let sink: ConnSink<RespPacket> = Box::pin(sender.sink_map_err(|_| BackendError::Canceled));
            let stream: ConnStream<RespPacket> = Box::pin(stream.map_err(|e: BackendError| e));
            Ok((sink, stream))
        })
    }
}

pub struct SimClientFactory {
    world: Weak<WorldInner>,
    owner: String,
}

pub struct SimClient {
    world: Weak<WorldInner>,
    owner: String,
    target: String,
    conn: String,
    /// replies sitting unread on this connection (they arrived after a request had timed out);
    /// like on a socket, the next reader gets them first
    unread: std::collections::VecDeque<RespVec>,
}

impl RedisClient for SimClient {
    fn execute<'s>(
        &'s mut self,
        command: OptionalMulti<Vec<BinSafeStr>>,
    ) -> Pin<Box<dyn Future<Output = Result<OptionalMulti<RespVec>, RedisClientError>> + Send + 's>> {
        Box::pin(async move {
            let w = match self.world.upgrade() {
                Some(w) => World(w),
                None => return Err(RedisClientError::Canceled),
            };
            let io_err = || RedisClientError::Io(std::io::Error::new(std::io::ErrorKind::ConnectionReset, "reset"));
            let (cmds, single) = match command {
                OptionalMulti::Single(c) => (vec![c], true),
                OptionalMulti::Multi(cs) => (cs, false),
            };
            let n = cmds.len();
            let res = w.request(&self.conn, true, &self.owner, &self.target, cmds).await;
            let late = w.take_late(&self.conn);
            let timed_out = res.is_err() && !late.is_empty();
            self.unread.extend(late);
            let v: Vec<RespVec> = match res {
                Ok(v) => {
                    if self.unread.is_empty() {
                        v
                    } else {
                        // positional matching on a byte stream: the oldest unread replies come first
                        self.unread.extend(v);
                        self.unread.drain(..n.min(self.unread.len())).collect()
                    }
                }
                Err(()) => return Err(if timed_out { RedisClientError::Timeout } else { io_err() }),
            };
            if single {
                let mut v = v;
                Ok(OptionalMulti::Single(v.pop().ok_or_else(io_err)?))
            } else {
                Ok(OptionalMulti::Multi(v))
            }
        })
    }
}

impl RedisClientFactory for SimClientFactory {
    type Client = SimClient;

    fn create_client<'s>(&'s self, address: String) -> Pin<Box<dyn Future<Output = Result<Self::Client, RedisClientError>> + Send + 's>> {
        Box::pin(async move {
            let w = match self.world.upgrade() {
                Some(w) => World(w),
                None => return Err(RedisClientError::Canceled),
            };
            let mut st = w.0.st.lock().unwrap();
            if st.down.contains(&address) || (!st.redis.contains_key(&address) && !st.proxies.contains_key(&address)) {
                return Err(RedisClientError::Io(std::io::Error::new(std::io::ErrorKind::ConnectionRefused, "refused")));
            }
            st.conn_seq += 1;
            let conn = format!("{}=>{}#{}", self.owner, address, st.conn_seq);
            Ok(SimClient { world: self.world.clone(), owner: self.owner.clone(), target: address, conn, unread: Default::default() })
        })
    }
}

/// Build a paused single-threaded runtime and run `f` on it.
pub fn run_sim<T>(f: impl Future<Output = T>) -> T {
    let rt = tokio::runtime::Builder::new_current_thread().enable_time().start_paused(true).build().expect("runtime");
    let out = rt.block_on(f);
    drop(rt);
    out
}
