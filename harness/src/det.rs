//! Ownership of hash-iteration nondeterminism.
//!
//! `std::collections::hash_map::RandomState` seeds itself, once per thread, from
//! `getrandom(2)`.  The harness binaries link this strong definition of `getrandom`, which wins
//! over libc's, and answer from a PRNG stream derived from a thread-local *hash seed*.  Every
//! unit of work whose result may depend on iteration order runs on a fresh OS thread whose first
//! action is to set its seed (`on_fresh_thread`), so the order is a function of (work, seed) only.

use std::cell::Cell;

thread_local! {
    static HASH_SEED: Cell<u64> = Cell::new(0x9E37_79B9_7F4A_7C15);
    static CALLS: Cell<u64> = Cell::new(0);
}

fn splitmix(x: &mut u64) -> u64 {
    *x = x.wrapping_add(0x9E37_79B9_7F4A_7C15);
    let mut z = *x;
    z = (z ^ (z >> 30)).wrapping_mul(0xBF58_476D_1CE4_E5B9);
    z = (z ^ (z >> 27)).wrapping_mul(0x94D0_49BB_1331_11EB);
    z ^ (z >> 31)
}

/// Strong symbol overriding libc's `getrandom`; deterministic per (thread seed, call index).
///
/// # Safety
/// `buf` must point to `len` writable bytes (the libc contract).
#[no_mangle]
pub unsafe extern "C" fn getrandom(buf: *mut u8, len: usize, _flags: u32) -> isize {
    let seed = HASH_SEED.with(|s| s.get());
    let n = CALLS.with(|c| {
        let v = c.get();
        c.set(v + 1);
        v
    });
    let mut st = seed ^ n.wrapping_mul(0xD6E8_FEB8_6659_FD93);
    let mut i = 0usize;
    while i < len {
        let r = splitmix(&mut st).to_le_bytes();
        let mut j = 0;
        while j < 8 && i < len {
            *buf.add(i) = r[j];
            i += 1;
            j += 1;
        }
    }
    len as isize
}

pub fn set_thread_seed(seed: u64) {
    HASH_SEED.with(|s| s.set(seed));
    CALLS.with(|c| c.set(0));
}

/// Run `f` on a fresh OS thread whose hash seed is `seed`.
pub fn on_fresh_thread<T: Send + 'static>(
    seed: u64,
    stack: usize,
    f: impl FnOnce() -> T + Send + 'static,
) -> std::thread::Result<T> {
    std::thread::Builder::new()
        .stack_size(stack)
        .spawn(move || {
            set_thread_seed(seed);
            f()
        })
        .expect("spawn")
        .join()
}

/// Self-test used by every engine at start-up: the override must be in effect.
pub fn selftest() -> bool {
    fn order(seed: u64) -> Vec<u32> {
        on_fresh_thread(seed, 1 << 20, || {
            let mut m = std::collections::HashMap::new();
            for i in 0..64u32 {
                m.insert(format!("k{}", i), i);
            }
            m.values().cloned().collect::<Vec<_>>()
        })
        .unwrap()
    }
    let a = order(1);
    let b = order(1);
    let c = order(2);
    a == b && a != c
}
