//! Command line, evidence, replay artefacts and known findings — shared by all engines.

use serde_json::{json, Value};
use std::path::PathBuf;
use std::time::Instant;

pub const VERIF_DIR_DEFAULT: &str = "/verif";

/// Where KNOWN_FINDINGS.json is read and evidence / replays are written.  Always /verif for the
/// registered commands; the override exists so that a scratch copy of the harness (built against
/// a scratch worktree with a seeded change) does not overwrite the committed evidence.
pub fn verif_dir() -> String {
    std::env::var("VERIF_SHADOW_DIR").unwrap_or_else(|_| VERIF_DIR_DEFAULT.to_string())
}

#[derive(Clone, Debug)]
pub struct Cli {
    pub prop: String,
    pub tier: String,
    pub seed: u64,
    pub replay: Option<String>,
    pub extra: Vec<String>,
}

impl Cli {
    pub fn parse() -> Cli {
        let mut prop = String::new();
        let mut tier = std::env::var("VERIF_TIER").unwrap_or_else(|_| "quick".into());
        let mut seed: u64 = std::env::var("VERIF_SEED")
            .ok()
            .and_then(|s| s.parse().ok())
            .unwrap_or(0);
        let mut replay = None;
        let mut extra = vec![];
        let mut it = std::env::args().skip(1);
        while let Some(a) = it.next() {
            match a.as_str() {
                "--prop" => prop = it.next().unwrap_or_default(),
                "--tier" => tier = it.next().unwrap_or_default(),
                "--seed" => seed = it.next().and_then(|s| s.parse().ok()).unwrap_or(0),
                "--replay" => replay = it.next(),
                _ => extra.push(a),
            }
        }
        if tier != "thorough" {
            tier = "quick".into();
        }
        Cli {
            prop,
            tier,
            seed,
            replay,
            extra,
        }
    }
    pub fn thorough(&self) -> bool {
        self.tier == "thorough"
    }
    /// Exploration level: quick = 0, thorough = 1, plus `--boost N` (the check script boosts the
    /// properties whose engines are cheap, so that their every-change tier already runs the bounds
    /// that used to be the thorough tier and their thorough tier runs deeper ones).
    pub fn level(&self) -> usize {
        self.thorough() as usize + self.opt("--boost").and_then(|s| s.parse::<usize>().ok()).unwrap_or(0)
    }
    pub fn flag(&self, name: &str) -> bool {
        self.extra.iter().any(|e| e == name)
    }
    pub fn opt(&self, name: &str) -> Option<String> {
        let mut it = self.extra.iter();
        while let Some(e) = it.next() {
            if e == name {
                return it.next().cloned();
            }
        }
        None
    }
}

#[derive(Clone, Debug)]
pub struct Violation {
    /// Stable classification of *what* fails (input / call site / history class).  Matched
    /// against /verif/KNOWN_FINDINGS.json; a different key of the same property is a new violation.
    pub key: String,
    pub desc: String,
    pub replay: Value,
}

pub struct Report {
    pub prop: String,
    pub tier: String,
    pub seed: u64,
    pub level: String,
    pub start: Instant,
    pub assumptions: Vec<String>,
    /// merge into the evidence file already written by another engine for the same property
    pub append: bool,
    pub engine: String,
}

fn load_known() -> Vec<Value> {
    let p = format!("{}/KNOWN_FINDINGS.json", verif_dir());
    match std::fs::read_to_string(&p) {
        Ok(s) => serde_json::from_str::<Value>(&s)
            .ok()
            .and_then(|v| v.get("findings").and_then(|f| f.as_array().cloned()))
            .unwrap_or_default(),
        Err(_) => vec![],
    }
}

/// A known finding suppresses a violation iff property matches, status is "known" and the
/// finding's `key` equals the violation key or (when it ends in '*') is a prefix of it.
fn known_match(known: &[Value], prop: &str, key: &str) -> Option<String> {
    for k in known {
        if k.get("property").and_then(|v| v.as_str()) != Some(prop) {
            continue;
        }
        if k.get("status").and_then(|v| v.as_str()) != Some("known") {
            continue;
        }
        let kk = k.get("key").and_then(|v| v.as_str()).unwrap_or("");
        let hit = if let Some(pref) = kk.strip_suffix('*') {
            key.starts_with(pref)
        } else {
            kk == key
        };
        if hit {
            return Some(
                k.get("what")
                    .and_then(|v| v.as_str())
                    .unwrap_or(kk)
                    .to_string(),
            );
        }
    }
    None
}

impl Report {
    pub fn new(cli: &Cli, level: &str) -> Report {
        Report {
            prop: cli.prop.clone(),
            tier: cli.tier.clone(),
            seed: cli.seed,
            level: level.into(),
            start: Instant::now(),
            assumptions: vec![],
            append: cli.flag("--append"),
            engine: std::env::args().next().and_then(|a| std::path::Path::new(&a).file_name().map(|f| f.to_string_lossy().to_string())).unwrap_or_default(),
        }
    }

    /// Writes evidence + replay files, prints the verdict lines, returns the process exit code.
    pub fn finish(&self, coverage: Value, violations: Vec<Violation>) -> i32 {
        let known = load_known();
        let mut new_v: Vec<&Violation> = vec![];
        let mut known_hits: std::collections::BTreeMap<String, (String, usize)> = Default::default();
        for v in &violations {
            match known_match(&known, &self.prop, &v.key) {
                Some(what) => {
                    let e = known_hits.entry(v.key.clone()).or_insert((what, 0));
                    e.1 += 1;
                }
                None => new_v.push(v),
            }
        }
        let mut cov = coverage;
        if let Some(obj) = cov.as_object_mut() {
            obj.insert(
                "known_finding_hits".into(),
                json!(known_hits
                    .iter()
                    .map(|(k, (_, n))| json!({"key": k, "occurrences": n}))
                    .collect::<Vec<_>>()),
            );
        }
        let mut wall = self.start.elapsed().as_secs_f64();
        let mut nviol = new_v.len();
        let mut assumptions = self.assumptions.clone();
        let path0 = format!("{}/evidence/{}.json", verif_dir(), self.prop);
        if self.append {
            if let Some(old) = std::fs::read_to_string(&path0).ok().and_then(|s| serde_json::from_str::<Value>(&s).ok()) {
                let oc = old.get("coverage").cloned().unwrap_or(json!({}));
                let sum = |k: &str| oc.get(k).and_then(|x| x.as_u64()).unwrap_or(0) + cov.get(k).and_then(|x| x.as_u64()).unwrap_or(0);
                let mut samples = oc.get("samples").and_then(|x| x.as_array()).cloned().unwrap_or_default();
                samples.extend(cov.get("samples").and_then(|x| x.as_array()).cloned().unwrap_or_default());
                let mut merged = json!({
                    "evaluations": sum("evaluations"),
                    "distinct_nontrivial": sum("distinct_nontrivial"),
                    "rule": format!("PART 1: {} || PART 2 ({}): {}", oc.get("rule").and_then(|x| x.as_str()).unwrap_or(""), self.engine, cov.get("rule").and_then(|x| x.as_str()).unwrap_or("")),
                    "samples": samples,
                    "exhaustive": oc.get("exhaustive").and_then(|x| x.as_bool()).unwrap_or(false) && cov.get("exhaustive").and_then(|x| x.as_bool()).unwrap_or(false),
                    "parts": [oc.clone(), cov.clone()],
                });
                for k in ["states", "transitions", "traces_validated_against_impl"] {
                    if oc.get(k).is_some() || cov.get(k).is_some() {
                        merged[k] = json!(sum(k));
                    }
                }
                cov = merged;
                wall += old.get("wall_s").and_then(|x| x.as_f64()).unwrap_or(0.0);
                nviol += old.get("violations").and_then(|x| x.as_u64()).unwrap_or(0) as usize;
                for a in old.get("assumptions").and_then(|x| x.as_array()).cloned().unwrap_or_default() {
                    if let Some(a) = a.as_str() {
                        if !assumptions.iter().any(|x| x == a) {
                            assumptions.insert(0, a.to_string());
                        }
                    }
                }
            }
        }
        let ev = json!({
            "property_id": self.prop,
            "tier": self.tier,
            "seed": self.seed,
            "level": self.level,
            "coverage": cov,
            "assumptions": assumptions,
            "wall_s": wall,
            "violations": nviol,
        });
        let dir = format!("{}/evidence", verif_dir());
        let _ = std::fs::create_dir_all(&dir);
        let path = format!("{}/{}.json", dir, self.prop);
        if let Err(e) = std::fs::write(&path, serde_json::to_string_pretty(&ev).unwrap()) {
            eprintln!("MACHINERY-ERROR cannot write evidence {}: {}", path, e);
            return 2;
        }
        for (k, (what, n)) in &known_hits {
            println!(
                "KNOWN-FINDING: property={} {} (key={} occurrences={})",
                self.prop, what, k, n
            );
        }
        if new_v.is_empty() {
            println!(
                "OK property={} tier={} wall_s={:.1}",
                self.prop,
                self.tier,
                self.start.elapsed().as_secs_f64()
            );
            return 0;
        }
        {
            let mut keys: Vec<&str> = new_v.iter().map(|v| v.key.as_str()).collect();
            keys.sort();
            keys.dedup();
            println!("ALL-VIOLATION-KEYS property={} count={}: {}", self.prop, keys.len(), keys.join(" | "));
        }
        let rdir = PathBuf::from(format!("{}/replays/{}", verif_dir(), self.prop));
        let _ = std::fs::create_dir_all(&rdir);
        // distinct keys first, at most 10 replay files
        let mut seen = std::collections::BTreeSet::new();
        let mut n = 0;
        for v in &new_v {
            if !seen.insert(v.key.clone()) {
                continue;
            }
            if n >= 10 {
                break;
            }
            let fname = rdir.join(format!("{}-{}-{}.json", self.tier, self.engine, n));
            let body = json!({"property": self.prop, "engine": self.engine, "key": v.key, "desc": v.desc, "replay": v.replay});
            let _ = std::fs::write(&fname, serde_json::to_string_pretty(&body).unwrap());
            let short: String = v.desc.chars().take(500).collect();
            println!("DETAIL property={} key={} {}", self.prop, v.key, short);
            println!(
                "VIOLATION property={} replay={}",
                self.prop,
                fname.display()
            );
            n += 1;
        }
        1
    }
}

pub fn machinery_error(msg: &str) -> ! {
    eprintln!("MACHINERY-ERROR {}", msg);
    println!("MACHINERY-ERROR {}", msg);
    std::process::exit(2);
}
