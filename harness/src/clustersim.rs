//! Real broker + real coordinator rounds + real proxies on the simnet world.

use crate::brokerlib::{proxy_addrs, Broker, BrokerCfg, Op};
use crate::sim::*;
use futures::{stream, Future, Stream, StreamExt};
use serde_json::Value;
use std::pin::Pin;
use std::sync::{Arc, Mutex};
use undermoon::common::cluster::{Cluster, ClusterName, MigrationTaskMeta, Proxy};
use undermoon::coordinator::broker::{MetaDataBroker, MetaDataBrokerError, MetaManipulationBroker, MetaManipulationBrokerError};
use undermoon::coordinator::verif_export::{
    BrokerFailureReporter, BrokerMetaRetriever, BrokerMigrationCommitter, BrokerProxiesRetriever, BrokerProxyFailureRetriever, FailureDetector, FailureHandler,
    MigrationStateRespChecker, MigrationStateSynchronizer, ParFailureDetector, ParFailureHandler, ParMigrationStateSynchronizer, PingFailureDetector, ProxyMetaRespSender,
    ProxyMetaRespSynchronizer, ProxyMetaSynchronizer, ReplaceNodeHandler,
};

/// Address scheme: host i -> 127.0.0.(i+1); proxy j of the host -> port 7000+j; its two nodes ->
/// ports 6000+2j and 6001+2j.
pub fn ip_layout(counts: &[usize]) -> Vec<(String, String, [String; 2])> {
    let mut v = vec![];
    for (h, n) in counts.iter().enumerate() {
        let ip = format!("127.0.0.{}", h + 1);
        for j in 0..*n {
            v.push((format!("{}:{}", ip, 7000 + j), ip.clone(), [format!("{}:{}", ip, 6000 + 2 * j), format!("{}:{}", ip, 6001 + 2 * j)]));
        }
    }
    v
}

pub fn register_op(addr: &str, host: &str, nodes: &[String; 2], index: usize) -> Value {
    serde_json::json!({"proxy_address": addr, "nodes": [nodes[0], nodes[1]], "host": host, "index": index})
}

/// Calls of the coordinator to the broker, optionally recorded / failed by the harness.
pub struct SimBroker {
    pub broker: Arc<Broker>,
    pub calls: Mutex<Vec<String>>,
    /// when Some(n): the n-th call from now fails (request lost), then the fault is cleared
    pub fail_at: Mutex<Option<usize>>,
}

impl SimBroker {
    pub fn new(broker: Arc<Broker>) -> Arc<SimBroker> {
        Arc::new(SimBroker { broker, calls: Mutex::new(vec![]), fail_at: Mutex::new(None) })
    }
    fn enter(&self, what: String) -> bool {
        self.calls.lock().unwrap().push(what);
        let mut f = self.fail_at.lock().unwrap();
        match *f {
            Some(0) => {
                *f = None;
                false
            }
            Some(n) => {
                *f = Some(n - 1);
                true
            }
            None => true,
        }
    }
}

impl MetaDataBroker for SimBroker {
    fn get_cluster_names<'s>(&'s self) -> Pin<Box<dyn Stream<Item = Result<ClusterName, MetaDataBrokerError>> + Send + 's>> {
        if !self.enter("get_cluster_names".into()) {
            return Box::pin(stream::iter(vec![Err(MetaDataBrokerError::RequestFailed)]));
        }
        let names = futures::executor::block_on(self.broker.svc.get_cluster_names(None, None)).unwrap_or_default();
        Box::pin(stream::iter(names.into_iter().map(Ok)))
    }
    fn get_cluster<'s>(&'s self, name: ClusterName) -> Pin<Box<dyn Future<Output = Result<Option<Cluster>, MetaDataBrokerError>> + Send + 's>> {
        Box::pin(async move {
            if !self.enter(format!("get_cluster {}", name)) {
                return Err(MetaDataBrokerError::RequestFailed);
            }
            self.broker.svc.get_cluster_by_name(name.as_str()).await.map_err(|_| MetaDataBrokerError::RequestFailed)
        })
    }
    fn get_proxy_addresses<'s>(&'s self) -> Pin<Box<dyn Stream<Item = Result<String, MetaDataBrokerError>> + Send + 's>> {
        if !self.enter("get_proxy_addresses".into()) {
            return Box::pin(stream::iter(vec![Err(MetaDataBrokerError::RequestFailed)]));
        }
        let mut v = futures::executor::block_on(self.broker.svc.get_proxy_addresses(None, None)).unwrap_or_default();
        v.sort();
        Box::pin(stream::iter(v.into_iter().map(Ok)))
    }
    fn get_proxy<'s>(&'s self, address: String) -> Pin<Box<dyn Future<Output = Result<Option<Proxy>, MetaDataBrokerError>> + Send + 's>> {
        Box::pin(async move {
            if !self.enter(format!("get_proxy {}", address)) {
                return Err(MetaDataBrokerError::RequestFailed);
            }
            self.broker.svc.get_proxy_by_address(&address).await.map_err(|_| MetaDataBrokerError::RequestFailed)
        })
    }
    fn add_failure<'s>(&'s self, address: String, reporter_id: String) -> Pin<Box<dyn Future<Output = Result<(), MetaDataBrokerError>> + Send + 's>> {
        Box::pin(async move {
            if !self.enter(format!("add_failure {} {}", address, reporter_id)) {
                return Err(MetaDataBrokerError::RequestFailed);
            }
            self.broker.svc.add_failure(address, reporter_id).await.map_err(|_| MetaDataBrokerError::RequestFailed)
        })
    }
    fn get_failures<'s>(&'s self) -> Pin<Box<dyn Stream<Item = Result<String, MetaDataBrokerError>> + Send + 's>> {
        if !self.enter("get_failures".into()) {
            return Box::pin(stream::iter(vec![Err(MetaDataBrokerError::RequestFailed)]));
        }
        let mut v = futures::executor::block_on(self.broker.svc.get_failures()).unwrap_or_default();
        v.sort();
        Box::pin(stream::iter(v.into_iter().map(Ok)))
    }
    fn get_failed_proxies<'s>(&'s self) -> Pin<Box<dyn Stream<Item = Result<String, MetaDataBrokerError>> + Send + 's>> {
        if !self.enter("get_failed_proxies".into()) {
            return Box::pin(stream::iter(vec![Err(MetaDataBrokerError::RequestFailed)]));
        }
        let v = self.broker.failed_proxies();
        Box::pin(stream::iter(v.into_iter().map(Ok)))
    }
}

impl MetaManipulationBroker for SimBroker {
    fn replace_proxy<'s>(&'s self, failed_proxy_address: String) -> Pin<Box<dyn Future<Output = Result<Option<Proxy>, MetaManipulationBrokerError>> + Send + 's>> {
        Box::pin(async move {
            if !self.enter(format!("replace_proxy {}", failed_proxy_address)) {
                return Err(MetaManipulationBrokerError::RequestFailed);
            }
            self.broker.svc.replace_failed_proxy(failed_proxy_address).await.map_err(|_| MetaManipulationBrokerError::ResourceNotAvailable)
        })
    }
    fn commit_migration<'s>(&'s self, meta: MigrationTaskMeta) -> Pin<Box<dyn Future<Output = Result<(), MetaManipulationBrokerError>> + Send + 's>> {
        Box::pin(async move {
            if !self.enter(format!("commit_migration {}", meta.slot_range.get_range_list())) {
                return Err(MetaManipulationBrokerError::RequestFailed);
            }
            self.broker.svc.commit_migration(meta).await.map_err(|e| {
                if e.to_code() == "MIGRATION_TASK_NOT_FOUND" {
                    MetaManipulationBrokerError::InvalidReply
                } else {
                    MetaManipulationBrokerError::RequestFailed
                }
            })
        })
    }
}

pub struct ClusterSim {
    pub world: World,
    pub broker: Arc<SimBroker>,
    pub cfg: BrokerCfg,
    pub proxies: Vec<(String, String, [String; 2])>,
    pub opts: ProxyOpts,
}

impl ClusterSim {
    /// World + proxies + Redis stand-ins for a layout; the broker starts from `snapshot` if given
    /// (then its proxies must use the ip_layout addresses).
    pub fn new(counts: &[usize], cfg: &BrokerCfg, opts: &ProxyOpts, snapshot: Option<&Value>) -> ClusterSim {
        let world = World::new();
        let proxies = ip_layout(counts);
        for (addr, _, nodes) in &proxies {
            world.add_redis(&nodes[0]);
            world.add_redis(&nodes[1]);
            world.add_proxy(addr, opts);
        }
        let broker = match snapshot {
            Some(s) => Broker::from_snapshot(cfg, cfg.migration_limit, s).expect("restore broker"),
            None => {
                let b = Broker::empty(cfg);
                for (i, (addr, host, nodes)) in proxies.iter().enumerate() {
                    let p = serde_json::from_value(register_op(addr, host, nodes, i)).unwrap();
                    futures::executor::block_on(b.svc.add_proxy(p)).expect("add_proxy");
                }
                b
            }
        };
        ClusterSim { world, broker: SimBroker::new(Arc::new(broker)), cfg: cfg.clone(), proxies, opts: opts.clone() }
    }

    /// A coordinator view onto an existing world (proxies already created) with another broker.
    pub fn with_world(world: World, counts: &[usize], cfg: &BrokerCfg, opts: &ProxyOpts, broker: Broker) -> ClusterSim {
        ClusterSim { world, broker: SimBroker::new(Arc::new(broker)), cfg: cfg.clone(), proxies: ip_layout(counts), opts: opts.clone() }
    }

    pub fn apply(&self, op: &Op) -> String {
        self.broker.broker.apply(op)
    }

    /// One metadata sync round of the real coordinator (SETREPL then SETCLUSTER to every proxy).
    pub async fn sync_round(&self, who: &str, compress: bool) -> Vec<String> {
        let cf = self.world.client_factory(who);
        let s = ProxyMetaRespSynchronizer::new(BrokerProxiesRetriever::new(self.broker.clone()), BrokerMetaRetriever::new(self.broker.clone()), ProxyMetaRespSender::new(cf, compress));
        let r: Vec<_> = s.run().collect().await;
        r.into_iter().filter_map(|x| x.err().map(|e| format!("{:?}", e))).collect()
    }

    /// One migration-state round: INFOMGR on every proxy, commit finished tasks, SETCLUSTER dst then src.
    pub async fn migration_round(&self, who: &str, compress: bool) -> Vec<String> {
        let cf = self.world.client_factory(who);
        let s = ParMigrationStateSynchronizer::new(
            BrokerProxiesRetriever::new(self.broker.clone()),
            MigrationStateRespChecker::new(cf.clone()),
            BrokerMigrationCommitter::new(self.broker.clone()),
            BrokerMetaRetriever::new(self.broker.clone()),
            ProxyMetaRespSender::new(cf, compress),
        );
        let r: Vec<_> = s.run().collect().await;
        r.into_iter().filter_map(|x| x.err().map(|e| format!("{:?}", e))).collect()
    }

    pub async fn detect_round(&self, who: &str) -> Vec<String> {
        let cf = self.world.client_factory(who);
        let d = ParFailureDetector::new(BrokerProxiesRetriever::new(self.broker.clone()), PingFailureDetector::new(cf), BrokerFailureReporter::new(who.to_string(), self.broker.clone()));
        match d.run().await {
            Ok(()) => vec![],
            Err(e) => vec![format!("{:?}", e)],
        }
    }

    pub async fn failover_round(&self) -> Vec<String> {
        let h = ParFailureHandler::new(BrokerProxyFailureRetriever::new(self.broker.clone()), ReplaceNodeHandler::new(self.broker.clone()));
        let r: Vec<_> = h.run().collect().await;
        r.into_iter().filter_map(|x| x.err().map(|e| format!("{:?}", e))).collect()
    }

    pub async fn proxy_epoch(&self, addr: &str) -> Option<u64> {
        match self.world.client(addr, &cmd(&["UMCTL", "GETEPOCH"])).await {
            undermoon::protocol::Resp::Integer(b) => String::from_utf8_lossy(&b).parse().ok(),
            _ => None,
        }
    }

    /// Sync rounds until every registered, non-failed proxy reports the epoch the broker serves for it.
    pub async fn sync_until_converged(&self, compress: bool, max_rounds: usize) -> Result<usize, String> {
        for round in 0..max_rounds {
            let errs = self.sync_round("coordinator", compress).await;
            self.world.settle().await;
            let mut all = true;
            let snap = self.broker.broker.snapshot();
            let failed = self.broker.broker.failed_proxies();
            for p in proxy_addrs(&snap) {
                if failed.contains(&p) {
                    continue;
                }
                let want = self.broker.broker.proxy(&p).map(|x| x.get_epoch());
                let got = self.proxy_epoch(&p).await;
                if want != got {
                    all = false;
                }
            }
            if all {
                return Ok(round + 1);
            }
            if round + 1 == max_rounds {
                return Err(format!("not converged after {} rounds (last errors {:?})", max_rounds, errs));
            }
        }
        Err("no rounds".into())
    }
}
