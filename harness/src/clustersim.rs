//! Real broker + real coordinator rounds + real proxies on the simnet world.

use crate::brokerlib::{proxy_addrs, Broker, BrokerCfg, Op};
use crate::sim::*;
use futures::{stream, Future, Stream, StreamExt};
use serde_json::Value;
use std::pin::Pin;
use std::sync::{Arc, Mutex};
use undermoon::common::cluster::{Cluster, ClusterName, MigrationTaskMeta, Proxy};
use undermoon::coordinator::broker::{MetaDataBroker, MetaDataBrokerError, MetaManipulationBroker, MetaManipulationBrokerError};
use undermoon::coordinator::verif_export::{
    BrokerFailureReporter, BrokerMetaRetriever, BrokerMigrationCommitter, BrokerProxiesRetriever, BrokerProxyFailureRetriever, FailureDetector, FailureHandler,
    MigrationStateRespChecker, MigrationStateSynchronizer, ParFailureDetector, ParFailureHandler, ParMigrationStateSynchronizer, PingFailureDetector, ProxyMetaRespSender,
    ProxyMetaRespSynchronizer, ProxyMetaSynchronizer, ReplaceNodeHandler,
};

/// Address scheme: host i -> 127.0.0.(i+1); proxy j of the host -> port 7000+j; its two nodes ->
/// ports 6000+2j and 6001+2j.
pub fn ip_layout(counts: &[usize]) -> Vec<(String, String, [String; 2])> {
    let mut v = vec![];
    for (h, n) in counts.iter().enumerate() {
        let ip = format!("127.0.0.{}", h + 1);
        for j in 0..*n {
            v.push((format!("{}:{}", ip, 7000 + j), ip.clone(), [format!("{}:{}", ip, 6000 + 2 * j), format!("{}:{}", ip, 6001 + 2 * j)]));
        }
    }
    v
}

pub fn register_op(addr: &str, host: &str, nodes: &[String; 2], index: usize) -> Value {
    serde_json::json!({"proxy_address": addr, "nodes": [nodes[0], nodes[1]], "host": host, "index": index})
}

#[derive(Clone, Copy, Debug, PartialEq, Eq)]
pub enum BrokerVerdict {
    Exec,
    /// the call never reaches the broker
    LoseRequest,
    /// the broker executes the call, the coordinator sees a failed request
    LoseReply,
    /// the coordinator sees a failed request; the call reaches the broker later (stale delivery)
    Delay,
    /// the call reaches the broker twice (a retried HTTP request); the coordinator sees the second answer
    Duplicate,
}

/// A mutating broker call that was delayed on the network.
#[derive(Clone, Debug)]
pub enum DelayedCall {
    Commit(String, MigrationTaskMeta),
    Replace(String, String),
    AddFailure(String, String, String),
}

/// Asynchronous gate for coordinator -> broker calls (who, what).  The future may do arbitrary
/// work before answering (or never answer = coordinator crash).
pub type BrokerHook = Arc<dyn Fn(String, String) -> Pin<Box<dyn Future<Output = BrokerVerdict> + Send>> + Send + Sync>;

/// Record of one commit_migration call that reached the broker.
#[derive(Clone, Debug)]
pub struct CommitRec {
    pub who: String,
    pub task: String,
    pub src_proxy: String,
    pub dst_proxy: String,
    pub ok: bool,
    pub code: String,
    pub state_changed: bool,
    /// the descriptor named a migration the broker held at that moment (same range list, epoch and
    /// four addresses) - a commit that is accepted although this is false committed something else
    pub was_current: bool,
    pub late: bool,
}

/// Calls of the coordinator to the broker, optionally recorded / failed by the harness.
pub struct SimBroker {
    pub broker: Arc<Broker>,
    pub who: String,
    pub calls: Mutex<Vec<String>>,
    /// when Some(n): the n-th call from now fails (request lost), then the fault is cleared
    pub fail_at: Mutex<Option<usize>>,
    pub hook: Mutex<Option<BrokerHook>>,
    pub commits: Arc<Mutex<Vec<CommitRec>>>,
    pub delayed: Arc<Mutex<Vec<DelayedCall>>>,
}

impl SimBroker {
    pub fn new(broker: Arc<Broker>) -> Arc<SimBroker> {
        Arc::new(SimBroker { broker, who: "coordinator".into(), calls: Mutex::new(vec![]), fail_at: Mutex::new(None), hook: Mutex::new(None), commits: Arc::new(Mutex::new(vec![])), delayed: Arc::new(Mutex::new(vec![])) })
    }
    pub fn view(&self, who: &str) -> Arc<SimBroker> {
        Arc::new(SimBroker { broker: self.broker.clone(), who: who.to_string(), calls: Mutex::new(vec![]), fail_at: Mutex::new(None), hook: Mutex::new(self.hook.lock().unwrap().clone()), commits: self.commits.clone(), delayed: self.delayed.clone() })
    }
    fn enter(&self, what: String) -> bool {
        self.calls.lock().unwrap().push(what);
        let mut f = self.fail_at.lock().unwrap();
        match *f {
            Some(0) => {
                *f = None;
                false
            }
            Some(n) => {
                *f = Some(n - 1);
                true
            }
            None => true,
        }
    }
    /// Does the broker (restored from `snap`, all migrations visible) hold exactly this task?
    fn task_is_current(snap: &Value, meta: &MigrationTaskMeta) -> bool {
        let cfg = BrokerCfg { ordered: false, migration_limit: 0, failure_quorum: 1, failure_ttl: 100000 };
        let b = match Broker::from_snapshot(&cfg, 0, snap) {
            Ok(b) => b,
            Err(_) => return false,
        };
        let want = match meta.slot_range.tag.get_migration_meta() {
            Some(m) => m.clone(),
            None => return false,
        };
        let c = match b.cluster(meta.cluster_name.as_str()) {
            Some(c) => c,
            None => return false,
        };
        c.get_nodes().iter().any(|n| {
            n.get_slots().iter().any(|s| s.get_range_list() == meta.slot_range.get_range_list() && s.tag.get_migration_meta().map(|m| *m == want).unwrap_or(false))
        })
    }

    /// The broker side of one commit_migration call (also used for duplicated and late deliveries).
    async fn commit_at_broker(&self, who: &str, meta: MigrationTaskMeta, late: bool) -> Result<(), undermoon::broker::MetaStoreError> {
        let task = format!("{} {:?}", meta.slot_range.get_range_list(), meta.slot_range.tag.get_migration_meta().map(|m| (m.epoch, m.src_proxy_address.clone(), m.dst_proxy_address.clone())));
        let (src_proxy, dst_proxy) = meta.slot_range.tag.get_migration_meta().map(|m| (m.src_proxy_address.clone(), m.dst_proxy_address.clone())).unwrap_or_default();
        let before = self.broker.snapshot();
        let was_current = Self::task_is_current(&before, &meta);
        // the task descriptor is the JSON body of PUT /clusters/migrations in production
        let meta: MigrationTaskMeta = match serde_json::to_string(&meta).ok().and_then(|s| serde_json::from_str(&s).ok()) {
            Some(m) => m,
            None => return Err(undermoon::broker::MetaStoreError::InvalidMigrationTask),
        };
        let r = self.broker.svc.commit_migration(meta).await;
        let after = self.broker.snapshot();
        self.commits.lock().unwrap().push(CommitRec {
            who: who.to_string(),
            task,
            src_proxy,
            dst_proxy,
            ok: r.is_ok(),
            code: r.as_ref().err().map(|e| e.to_code().to_string()).unwrap_or_default(),
            state_changed: before != after,
            was_current,
            late,
        });
        r
    }

    /// Late delivery of the mutating calls that were delayed on the network (in call order).
    pub async fn deliver_delayed(&self) -> usize {
        let d: Vec<DelayedCall> = std::mem::take(&mut *self.delayed.lock().unwrap());
        let n = d.len();
        for c in d {
            match c {
                DelayedCall::Commit(who, meta) => {
                    let _ = self.commit_at_broker(&format!("{}(late)", who), meta, true).await;
                }
                DelayedCall::Replace(_who, addr) => {
                    let _ = self.broker.svc.replace_failed_proxy(addr).await;
                }
                DelayedCall::AddFailure(_who, addr, reporter) => {
                    let _ = self.broker.svc.add_failure(addr, reporter).await;
                }
            }
        }
        n
    }

    async fn gate(&self, what: String) -> BrokerVerdict {
        if !self.enter(what.clone()) {
            return BrokerVerdict::LoseRequest;
        }
        let h = self.hook.lock().unwrap().clone();
        match h {
            Some(h) => h(self.who.clone(), what).await,
            None => BrokerVerdict::Exec,
        }
    }
}

fn once_list<'s, T: Send + 's, F>(f: F) -> Pin<Box<dyn Stream<Item = Result<T, MetaDataBrokerError>> + Send + 's>>
where
    F: Future<Output = Result<Vec<T>, MetaDataBrokerError>> + Send + 's,
{
    Box::pin(stream::once(f).flat_map(|r| match r {
        Ok(v) => stream::iter(v.into_iter().map(Ok).collect::<Vec<_>>()),
        Err(e) => stream::iter(vec![Err(e)]),
    }))
}

/// Between broker and coordinator every value travels as JSON over HTTP in production; a value that
/// does not survive its own serde round trip must not look fine here.
fn via_json<T: serde::Serialize + serde::de::DeserializeOwned>(v: T) -> Result<T, MetaDataBrokerError> {
    let s = serde_json::to_string(&v).map_err(|_| MetaDataBrokerError::InvalidReply)?;
    serde_json::from_str(&s).map_err(|_| MetaDataBrokerError::InvalidReply)
}

impl MetaDataBroker for SimBroker {
    fn get_cluster_names<'s>(&'s self) -> Pin<Box<dyn Stream<Item = Result<ClusterName, MetaDataBrokerError>> + Send + 's>> {
        once_list(async move {
            if self.gate("get_cluster_names".into()).await != BrokerVerdict::Exec {
                return Err(MetaDataBrokerError::RequestFailed);
            }
            Ok(self.broker.svc.get_cluster_names(None, None).await.unwrap_or_default())
        })
    }
    fn get_cluster<'s>(&'s self, name: ClusterName) -> Pin<Box<dyn Future<Output = Result<Option<Cluster>, MetaDataBrokerError>> + Send + 's>> {
        Box::pin(async move {
            if self.gate(format!("get_cluster {}", name)).await != BrokerVerdict::Exec {
                return Err(MetaDataBrokerError::RequestFailed);
            }
            via_json(self.broker.svc.get_cluster_by_name(name.as_str()).await.map_err(|_| MetaDataBrokerError::RequestFailed)?)
        })
    }
    fn get_proxy_addresses<'s>(&'s self) -> Pin<Box<dyn Stream<Item = Result<String, MetaDataBrokerError>> + Send + 's>> {
        once_list(async move {
            if self.gate("get_proxy_addresses".into()).await != BrokerVerdict::Exec {
                return Err(MetaDataBrokerError::RequestFailed);
            }
            let mut v = self.broker.svc.get_proxy_addresses(None, None).await.unwrap_or_default();
            v.sort();
            Ok(v)
        })
    }
    fn get_proxy<'s>(&'s self, address: String) -> Pin<Box<dyn Future<Output = Result<Option<Proxy>, MetaDataBrokerError>> + Send + 's>> {
        Box::pin(async move {
            if self.gate(format!("get_proxy {}", address)).await != BrokerVerdict::Exec {
                return Err(MetaDataBrokerError::RequestFailed);
            }
            via_json(self.broker.svc.get_proxy_by_address(&address).await.map_err(|_| MetaDataBrokerError::RequestFailed)?)
        })
    }
    fn add_failure<'s>(&'s self, address: String, reporter_id: String) -> Pin<Box<dyn Future<Output = Result<(), MetaDataBrokerError>> + Send + 's>> {
        Box::pin(async move {
            let v = self.gate(format!("add_failure {} {}", address, reporter_id)).await;
            if v == BrokerVerdict::LoseRequest {
                return Err(MetaDataBrokerError::RequestFailed);
            }
            if v == BrokerVerdict::Delay {
                self.delayed.lock().unwrap().push(DelayedCall::AddFailure(self.who.clone(), address, reporter_id));
                return Err(MetaDataBrokerError::RequestFailed);
            }
            if v == BrokerVerdict::Duplicate {
                let _ = self.broker.svc.add_failure(address.clone(), reporter_id.clone()).await;
            }
            let r = self.broker.svc.add_failure(address, reporter_id).await.map_err(|_| MetaDataBrokerError::RequestFailed);
            if v == BrokerVerdict::LoseReply {
                return Err(MetaDataBrokerError::RequestFailed);
            }
            r
        })
    }
    fn get_failures<'s>(&'s self) -> Pin<Box<dyn Stream<Item = Result<String, MetaDataBrokerError>> + Send + 's>> {
        once_list(async move {
            if self.gate("get_failures".into()).await != BrokerVerdict::Exec {
                return Err(MetaDataBrokerError::RequestFailed);
            }
            let mut v = self.broker.svc.get_failures().await.unwrap_or_default();
            v.sort();
            Ok(v)
        })
    }
    fn get_failed_proxies<'s>(&'s self) -> Pin<Box<dyn Stream<Item = Result<String, MetaDataBrokerError>> + Send + 's>> {
        once_list(async move {
            if self.gate("get_failed_proxies".into()).await != BrokerVerdict::Exec {
                return Err(MetaDataBrokerError::RequestFailed);
            }
            Ok(self.broker.failed_proxies())
        })
    }
}

impl MetaManipulationBroker for SimBroker {
    fn replace_proxy<'s>(&'s self, failed_proxy_address: String) -> Pin<Box<dyn Future<Output = Result<Option<Proxy>, MetaManipulationBrokerError>> + Send + 's>> {
        Box::pin(async move {
            let v = self.gate(format!("replace_proxy {}", failed_proxy_address)).await;
            if v == BrokerVerdict::LoseRequest {
                return Err(MetaManipulationBrokerError::RequestFailed);
            }
            if v == BrokerVerdict::Delay {
                self.delayed.lock().unwrap().push(DelayedCall::Replace(self.who.clone(), failed_proxy_address));
                return Err(MetaManipulationBrokerError::RequestFailed);
            }
            if v == BrokerVerdict::Duplicate {
                let _ = self.broker.svc.replace_failed_proxy(failed_proxy_address.clone()).await;
            }
            let r = self.broker.svc.replace_failed_proxy(failed_proxy_address).await.map_err(|_| MetaManipulationBrokerError::ResourceNotAvailable);
            if v == BrokerVerdict::LoseReply {
                return Err(MetaManipulationBrokerError::RequestFailed);
            }
            r
        })
    }
    fn commit_migration<'s>(&'s self, meta: MigrationTaskMeta) -> Pin<Box<dyn Future<Output = Result<(), MetaManipulationBrokerError>> + Send + 's>> {
        Box::pin(async move {
            let v = self.gate(format!("commit_migration {}", meta.slot_range.get_range_list())).await;
            match v {
                BrokerVerdict::LoseRequest => return Err(MetaManipulationBrokerError::RequestFailed),
                BrokerVerdict::Delay => {
                    self.delayed.lock().unwrap().push(DelayedCall::Commit(self.who.clone(), meta));
                    return Err(MetaManipulationBrokerError::RequestFailed);
                }
                _ => {}
            }
            if v == BrokerVerdict::Duplicate {
                let _ = self.commit_at_broker(&self.who, meta.clone(), false).await;
            }
            let r = self.commit_at_broker(&self.who, meta, false).await;
            if v == BrokerVerdict::LoseReply {
                return Err(MetaManipulationBrokerError::RequestFailed);
            }
            r.map_err(|e| {
                if e.to_code() == "MIGRATION_TASK_NOT_FOUND" {
                    MetaManipulationBrokerError::InvalidReply
                } else {
                    MetaManipulationBrokerError::RequestFailed
                }
            })
        })
    }
}

pub struct ClusterSim {
    pub world: World,
    pub broker: Arc<SimBroker>,
    pub cfg: BrokerCfg,
    pub proxies: Vec<(String, String, [String; 2])>,
    pub opts: ProxyOpts,
}

impl ClusterSim {
    /// World + proxies + Redis stand-ins for a layout; the broker starts from `snapshot` if given
    /// (then its proxies must use the ip_layout addresses).
    pub fn new(counts: &[usize], cfg: &BrokerCfg, opts: &ProxyOpts, snapshot: Option<&Value>) -> ClusterSim {
        let world = World::new();
        let proxies = ip_layout(counts);
        for (addr, _, nodes) in &proxies {
            world.add_redis(&nodes[0]);
            world.add_redis(&nodes[1]);
            world.add_proxy(addr, opts);
        }
        let broker = match snapshot {
            Some(s) => Broker::from_snapshot(cfg, cfg.migration_limit, s).expect("restore broker"),
            None => {
                let b = Broker::empty(cfg);
                for (i, (addr, host, nodes)) in proxies.iter().enumerate() {
                    let p = serde_json::from_value(register_op(addr, host, nodes, i)).unwrap();
                    futures::executor::block_on(b.svc.add_proxy(p)).expect("add_proxy");
                }
                b
            }
        };
        ClusterSim { world, broker: SimBroker::new(Arc::new(broker)), cfg: cfg.clone(), proxies, opts: opts.clone() }
    }

    /// A coordinator view onto an existing world (proxies already created) with another broker.
    pub fn with_world(world: World, counts: &[usize], cfg: &BrokerCfg, opts: &ProxyOpts, broker: Broker) -> ClusterSim {
        ClusterSim { world, broker: SimBroker::new(Arc::new(broker)), cfg: cfg.clone(), proxies: ip_layout(counts), opts: opts.clone() }
    }

    /// The same system seen by another coordinator (own call identity, shared broker and world).
    pub fn view(&self, who: &str) -> ClusterSim {
        ClusterSim { world: self.world.clone(), broker: self.broker.view(who), cfg: self.cfg.clone(), proxies: self.proxies.clone(), opts: self.opts.clone() }
    }

    pub fn apply(&self, op: &Op) -> String {
        self.broker.broker.apply(op)
    }

    /// One metadata sync round of the real coordinator (SETREPL then SETCLUSTER to every proxy).
    pub async fn sync_round(&self, who: &str, compress: bool) -> Vec<String> {
        let cf = self.world.client_factory(who);
        let s = ProxyMetaRespSynchronizer::new(BrokerProxiesRetriever::new(self.broker.clone()), BrokerMetaRetriever::new(self.broker.clone()), ProxyMetaRespSender::new(cf, compress));
        let r: Vec<_> = s.run().collect().await;
        r.into_iter().filter_map(|x| x.err().map(|e| format!("{:?}", e))).collect()
    }

    /// One migration-state round: INFOMGR on every proxy, commit finished tasks, SETCLUSTER dst then src.
    pub async fn migration_round(&self, who: &str, compress: bool) -> Vec<String> {
        let cf = self.world.client_factory(who);
        let s = ParMigrationStateSynchronizer::new(
            BrokerProxiesRetriever::new(self.broker.clone()),
            MigrationStateRespChecker::new(cf.clone()),
            BrokerMigrationCommitter::new(self.broker.clone()),
            BrokerMetaRetriever::new(self.broker.clone()),
            ProxyMetaRespSender::new(cf, compress),
        );
        let r: Vec<_> = s.run().collect().await;
        r.into_iter().filter_map(|x| x.err().map(|e| format!("{:?}", e))).collect()
    }

    pub async fn detect_round(&self, who: &str) -> Vec<String> {
        let cf = self.world.client_factory(who);
        let d = ParFailureDetector::new(BrokerProxiesRetriever::new(self.broker.clone()), PingFailureDetector::new(cf), BrokerFailureReporter::new(who.to_string(), self.broker.clone()));
        match d.run().await {
            Ok(()) => vec![],
            Err(e) => vec![format!("{:?}", e)],
        }
    }

    pub async fn failover_round(&self) -> Vec<String> {
        let h = ParFailureHandler::new(BrokerProxyFailureRetriever::new(self.broker.clone()), ReplaceNodeHandler::new(self.broker.clone()));
        let r: Vec<_> = h.run().collect().await;
        r.into_iter().filter_map(|x| x.err().map(|e| format!("{:?}", e))).collect()
    }

    pub async fn proxy_epoch(&self, addr: &str) -> Option<u64> {
        match self.world.client(addr, &cmd(&["UMCTL", "GETEPOCH"])).await {
            undermoon::protocol::Resp::Integer(b) => String::from_utf8_lossy(&b).parse().ok(),
            _ => None,
        }
    }

    /// Sync rounds until every registered, non-failed proxy reports the epoch the broker serves for it.
    pub async fn sync_until_converged(&self, compress: bool, max_rounds: usize) -> Result<usize, String> {
        for round in 0..max_rounds {
            let errs = self.sync_round("coordinator", compress).await;
            self.world.settle().await;
            let mut all = true;
            let snap = self.broker.broker.snapshot();
            let failed = self.broker.broker.failed_proxies();
            for p in proxy_addrs(&snap) {
                if failed.contains(&p) {
                    continue;
                }
                let want = self.broker.broker.proxy(&p).map(|x| x.get_epoch());
                let got = self.proxy_epoch(&p).await;
                if want != got {
                    all = false;
                }
            }
            if all {
                return Ok(round + 1);
            }
            if round + 1 == max_rounds {
                return Err(format!("not converged after {} rounds (last errors {:?})", max_rounds, errs));
            }
        }
        Err("no rounds".into())
    }
}
