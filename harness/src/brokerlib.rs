//! Driving the real `MemBrokerService` as a transition system.
//!
//! A *state* is the metadata snapshot (`GET /api/v3/metadata`) as canonical JSON; a transition is
//! "new service restored from the snapshot -> one API call -> snapshot".

use futures::executor::block_on;
use serde_derive::{Deserialize, Serialize};
use serde_json::{json, Value};
use std::collections::BTreeSet;
use std::sync::Arc;
use undermoon::broker::{
    JsonFileStorage, JsonMetaReplicator, MemBrokerConfig, MemBrokerService, MetaPersistence,
    MetaReplicator, ReplicaAddresses, StorageConfig,
};
use undermoon::common::cluster::{Cluster, MigrationTaskMeta, Proxy, SlotRange, SlotRangeTag};
use undermoon::common::config::ClusterConfig;

/// Inert collaborators: `auto_update_meta_file` is off and there are no replica addresses, so
/// neither is ever invoked.  (`MetaStore` is not nameable outside the crate, so the traits cannot
/// be implemented here; the crate's own implementations are used.)
fn collaborators() -> (
    Arc<dyn MetaPersistence + Send + Sync + 'static>,
    Arc<dyn MetaReplicator + Send + Sync + 'static>,
    ReplicaAddresses,
) {
    static CLIENT: std::sync::OnceLock<reqwest::Client> = std::sync::OnceLock::new();
    let addrs: ReplicaAddresses = Arc::new(arc_swap::ArcSwap::new(Arc::new(vec![])));
    let client = CLIENT.get_or_init(reqwest::Client::new).clone();
    (
        Arc::new(JsonFileStorage::new("/nonexistent/verif-metadata".into())),
        Arc::new(JsonMetaReplicator::new(addrs.clone(), client)),
        addrs,
    )
}

#[derive(Clone, Debug, Serialize, Deserialize, PartialEq, Eq)]
pub struct Layout {
    /// host name -> number of proxies on it
    pub hosts: Vec<(String, usize)>,
}

impl Layout {
    pub fn new(counts: &[usize]) -> Layout {
        Layout {
            hosts: counts
                .iter()
                .enumerate()
                .map(|(i, n)| (format!("h{}", (b'a' + i as u8) as char), *n))
                .collect(),
        }
    }
    pub fn proxies(&self) -> Vec<(String, String, usize)> {
        let mut v = vec![];
        let mut idx = 0;
        for (h, n) in &self.hosts {
            for i in 0..*n {
                v.push((format!("{}:70{:02}", h, i), h.clone(), idx));
                idx += 1;
            }
        }
        v
    }
    pub fn name(&self) -> String {
        self.hosts
            .iter()
            .map(|(_, n)| n.to_string())
            .collect::<Vec<_>>()
            .join("/")
    }
}

pub fn proxy_payload(addr: &str, host: &str, index: usize) -> Value {
    // node addresses derived from the proxy address: ha:7001 -> ha:60010 / ha:60011
    let port = addr.split(':').nth(1).unwrap_or("0");
    let suffix = &port[port.len().saturating_sub(2)..];
    json!({
        "proxy_address": addr,
        "nodes": [format!("{}:60{}0", host, suffix), format!("{}:60{}1", host, suffix)],
        "host": host,
        "index": index,
    })
}

#[derive(Clone, Debug, Serialize, Deserialize, PartialEq, Eq)]
pub struct BrokerCfg {
    pub ordered: bool,
    pub migration_limit: u64,
    pub failure_quorum: u64,
    pub failure_ttl: u64,
}

#[derive(Clone, Debug, Serialize, Deserialize, PartialEq, Eq, Hash, PartialOrd, Ord)]
pub enum Op {
    AddProxy { addr: String, host: String, index: usize },
    /// the same address registers again announcing other node addresses (a recreated proxy)
    AddProxyAlt { addr: String, host: String, index: usize },
    RemoveProxy { addr: String },
    AddCluster { name: String, n: usize },
    RemoveCluster { name: String },
    AutoAddNodes { name: String, n: usize },
    AutoScaleUp { name: String, n: usize },
    MigrateSlots { name: String },
    ScaleDown { name: String, n: usize },
    AutoChange { name: String, n: usize },
    AutoScaleOut { name: String, n: usize },
    Commit { task: String },
    Failover { addr: String },
    AddFailure { addr: String, reporter: String },
    Balance { name: String },
    ChangeConfig { name: String, k: String, v: String },
    DeleteFree { name: String },
    GetFailures,
}

pub struct Broker {
    pub svc: MemBrokerService,
}

fn base_config(cfg: &BrokerCfg, limit: u64, addrs: ReplicaAddresses) -> MemBrokerConfig {
    MemBrokerConfig {
        address: "127.0.0.1:0".into(),
        failure_ttl: cfg.failure_ttl,
        failure_quorum: cfg.failure_quorum,
        migration_limit: limit,
        recover_from_meta_file: false,
        meta_filename: "/nonexistent/metadata".into(),
        auto_update_meta_file: false,
        update_meta_file_interval: None,
        replica_addresses: addrs,
        sync_meta_interval: None,
        enable_ordered_proxy: cfg.ordered,
        storage: StorageConfig::Memory,
        debug: false,
    }
}

impl Broker {
    pub fn empty(cfg: &BrokerCfg) -> Broker {
        let (p, r, a) = collaborators();
        let svc = MemBrokerService::new(
            base_config(cfg, cfg.migration_limit, a),
            ClusterConfig::default(),
            p,
            r,
            None,
        )
        .expect("empty broker");
        Broker { svc }
    }

    /// Restore from a snapshot with an explicit migration limit.
    pub fn from_snapshot(cfg: &BrokerCfg, limit: u64, snap: &Value) -> Result<Broker, String> {
        let store = serde_json::from_value(snap.clone()).map_err(|e| format!("snapshot: {}", e))?;
        let (p, r, a) = collaborators();
        let svc = MemBrokerService::new(
            base_config(cfg, limit, a),
            ClusterConfig::default(),
            p,
            r,
            Some(store),
        )
        .map_err(|e| format!("restore: {}", e))?;
        Ok(Broker { svc })
    }

    pub fn snapshot(&self) -> Value {
        let s = block_on(self.svc.get_all_data()).expect("get_all_data");
        let mut v = serde_json::to_value(&s).expect("snapshot json");
        normalise_snapshot(&mut v);
        v
    }

    pub fn cluster(&self, name: &str) -> Option<Cluster> {
        block_on(self.svc.get_cluster_by_name(name)).expect("get_cluster_by_name")
    }
    pub fn proxy(&self, addr: &str) -> Option<Proxy> {
        block_on(self.svc.get_proxy_by_address(addr)).expect("get_proxy_by_address")
    }
    pub fn epoch(&self) -> u64 {
        block_on(self.svc.get_epoch()).expect("get_epoch")
    }
    pub fn check_metadata_ok(&self) -> bool {
        block_on(self.svc.check_metadata())
            .expect("check_metadata")
            .is_none()
    }
    pub fn cluster_info(&self, name: &str) -> Option<Value> {
        block_on(self.svc.get_cluster_info_by_name(name))
            .expect("cluster info")
            .map(|i| serde_json::to_value(&i).unwrap())
    }
    pub fn failed_proxies(&self) -> Vec<String> {
        let mut v = block_on(self.svc.get_failed_proxies()).expect("failed proxies");
        v.sort();
        v
    }

    /// Apply one operation; returns "OK" / "OK:<detail>" or the broker's error code.
    pub fn apply(&self, op: &Op) -> String {
        fn r<T>(x: Result<T, undermoon::broker::MetaStoreError>) -> String {
            match x {
                Ok(_) => "OK".into(),
                Err(e) => e.to_code().to_string(),
            }
        }
        match op {
            Op::AddProxy { addr, host, index } => {
                let p = serde_json::from_value(proxy_payload(addr, host, *index)).unwrap();
                r(block_on(self.svc.add_proxy(p)))
            }
            Op::AddProxyAlt { addr, host, index } => {
                let mut v = proxy_payload(addr, host, *index);
                let port = addr.split(':').nth(1).unwrap_or("0");
                let suffix = &port[port.len().saturating_sub(2)..];
                v["nodes"] = json!([format!("{}:61{}0", host, suffix), format!("{}:61{}1", host, suffix)]);
                let p = serde_json::from_value(v).unwrap();
                r(block_on(self.svc.add_proxy(p)))
            }
            Op::RemoveProxy { addr } => r(block_on(self.svc.remove_proxy(addr.clone()))),
            Op::AddCluster { name, n } => r(block_on(self.svc.add_cluster(name.clone(), *n))),
            Op::RemoveCluster { name } => r(block_on(self.svc.remove_cluster(name.clone()))),
            Op::AutoAddNodes { name, n } => r(block_on(self.svc.auto_add_nodes(name.clone(), *n))),
            Op::AutoScaleUp { name, n } => {
                r(block_on(self.svc.auto_scale_up_nodes(name.clone(), *n)))
            }
            Op::MigrateSlots { name } => r(block_on(self.svc.migrate_slots(name.clone()))),
            Op::ScaleDown { name, n } => {
                r(block_on(self.svc.migrate_slots_to_scale_down(name.clone(), *n)))
            }
            Op::AutoChange { name, n } => {
                match block_on(self.svc.verif_auto_change_node_number(name.clone(), *n)) {
                    Ok((op, _, _)) => format!("OK:{}", op),
                    Err(e) => e.to_code().to_string(),
                }
            }
            Op::AutoScaleOut { name, n } => {
                r(block_on(self.svc.verif_auto_scale_out_node_number(name.clone(), *n)))
            }
            Op::Commit { task } => {
                let t: MigrationTaskMeta = serde_json::from_str(task).expect("task json");
                r(block_on(self.svc.commit_migration(t)))
            }
            Op::Failover { addr } => {
                match block_on(self.svc.replace_failed_proxy(addr.clone())) {
                    Ok(Some(p)) => format!("OK:{}", p.get_address()),
                    Ok(None) => "OK".into(),
                    Err(e) => e.to_code().to_string(),
                }
            }
            Op::AddFailure { addr, reporter } => {
                r(block_on(self.svc.add_failure(addr.clone(), reporter.clone())))
            }
            Op::Balance { name } => r(block_on(self.svc.balance_masters(name.clone()))),
            Op::ChangeConfig { name, k, v } => {
                // several fields in one request: "k1;k2" / "v1;v2"
                let mut m = std::collections::HashMap::new();
                for (kk, vv) in k.split(';').zip(v.split(';')) {
                    m.insert(kk.to_string(), vv.to_string());
                }
                r(block_on(self.svc.change_config(name.clone(), m)))
            }
            Op::DeleteFree { name } => r(block_on(self.svc.auto_delete_free_nodes(name.clone()))),
            Op::GetFailures => match block_on(self.svc.get_failures()) {
                Ok(mut v) => {
                    v.sort();
                    format!("OK:{}", v.join(","))
                }
                Err(e) => e.to_code().to_string(),
            },
        }
    }
}

/// Sort the one unordered collection serde does not sort (`failed_proxies`, a HashSet);
/// maps are `BTreeMap`s in serde_json already.
pub fn normalise_snapshot(v: &mut Value) {
    if let Some(a) = v.get_mut("failed_proxies").and_then(|x| x.as_array_mut()) {
        a.sort_by(|x, y| x.as_str().cmp(&y.as_str()));
    }
}

pub fn cluster_names(snap: &Value) -> Vec<String> {
    snap.get("clusters")
        .and_then(|c| c.as_object())
        .map(|m| m.keys().cloned().collect())
        .unwrap_or_default()
}
pub fn proxy_addrs(snap: &Value) -> Vec<String> {
    snap.get("all_proxies")
        .and_then(|c| c.as_object())
        .map(|m| m.keys().cloned().collect())
        .unwrap_or_default()
}
pub fn global_epoch(snap: &Value) -> u64 {
    snap.get("global_epoch").and_then(|v| v.as_u64()).unwrap_or(0)
}

/// All epoch values of a snapshot (global, cluster, migration metas).
pub fn collect_epochs(snap: &Value, out: &mut BTreeSet<u64>) {
    out.insert(global_epoch(snap));
    if let Some(cl) = snap.get("clusters").and_then(|c| c.as_object()) {
        for c in cl.values() {
            if let Some(e) = c.get("epoch").and_then(|e| e.as_u64()) {
                out.insert(e);
            }
            for ch in c.get("chunks").and_then(|x| x.as_array()).into_iter().flatten() {
                for part in ch
                    .get("migrating_slots")
                    .and_then(|x| x.as_array())
                    .into_iter()
                    .flatten()
                {
                    for m in part.as_array().into_iter().flatten() {
                        if let Some(e) = m.pointer("/meta/epoch").and_then(|e| e.as_u64()) {
                            out.insert(e);
                        }
                    }
                }
            }
        }
    }
}

/// Rewrite every epoch of a snapshot through `f`.
pub fn map_epochs(snap: &mut Value, f: &dyn Fn(u64) -> u64) {
    if let Some(g) = snap.get_mut("global_epoch") {
        *g = json!(f(g.as_u64().unwrap_or(0)));
    }
    if let Some(cl) = snap.get_mut("clusters").and_then(|c| c.as_object_mut()) {
        for c in cl.values_mut() {
            if let Some(e) = c.get_mut("epoch") {
                *e = json!(f(e.as_u64().unwrap_or(0)));
            }
            if let Some(chs) = c.get_mut("chunks").and_then(|x| x.as_array_mut()) {
                for ch in chs {
                    if let Some(parts) =
                        ch.get_mut("migrating_slots").and_then(|x| x.as_array_mut())
                    {
                        for part in parts {
                            if let Some(ms) = part.as_array_mut() {
                                for m in ms {
                                    if let Some(e) = m.pointer_mut("/meta/epoch") {
                                        *e = json!(f(e.as_u64().unwrap_or(0)));
                                    }
                                }
                            }
                        }
                    }
                }
            }
        }
    }
}

/// Replace failure-report timestamps by `ts` (the search does not distinguish report ages;
/// the C18 engine handles ages itself).
pub fn set_failure_times(snap: &mut Value, ts: i64) {
    if let Some(f) = snap.get_mut("failures").and_then(|c| c.as_object_mut()) {
        for reps in f.values_mut() {
            if let Some(m) = reps.as_object_mut() {
                for t in m.values_mut() {
                    *t = json!(ts);
                }
            }
        }
    }
}

pub fn task_epoch(t: &MigrationTaskMeta) -> u64 {
    t.slot_range
        .tag
        .get_migration_meta()
        .map(|m| m.epoch)
        .unwrap_or(0)
}

pub fn map_task_epoch(task: &str, f: &dyn Fn(u64) -> u64) -> String {
    let mut t: MigrationTaskMeta = serde_json::from_str(task).expect("task");
    if let Some(m) = t.slot_range.tag.get_mut_migration_meta() {
        m.epoch = f(m.epoch);
    }
    serde_json::to_string(&t).unwrap()
}

/// Migrating-out tasks visible in a cluster view (what a source proxy could report as finished).
pub fn migrating_tasks(cluster: &Cluster) -> Vec<MigrationTaskMeta> {
    let mut v = vec![];
    for n in cluster.get_nodes() {
        for s in n.get_slots() {
            if let SlotRangeTag::Migrating(_) = s.tag {
                v.push(MigrationTaskMeta {
                    cluster_name: cluster.get_name().clone(),
                    slot_range: s.clone(),
                });
            }
        }
    }
    v
}

pub fn slot_count(s: &SlotRange) -> usize {
    s.get_range_list().get_slots_num()
}
