//! C09 key part: slot of every key vs bit-wise CRC16-XMODEM + hash-tag rule of the specification.

use crate::report::*;
use serde_json::{json, Value};

// ------------------------------------------------------------------------------------------------
// C09 (key part): slot of every key vs bit-wise CRC16-XMODEM + hash-tag rule of the spec

pub fn crc16_xmodem_ref(data: &[u8]) -> u16 {
    let mut crc: u16 = 0;
    for b in data {
        crc ^= (*b as u16) << 8;
        for _ in 0..8 {
            if crc & 0x8000 != 0 {
                crc = (crc << 1) ^ 0x1021;
            } else {
                crc <<= 1;
            }
        }
    }
    crc
}

pub fn ref_slot(key: &[u8]) -> usize {
    // Redis Cluster specification: hash only what is between the first '{' and the first '}'
    // after it, if that is non-empty.
    let mut tag = key;
    if let Some(s) = key.iter().position(|c| *c == b'{') {
        if let Some(e) = key[s + 1..].iter().position(|c| *c == b'}') {
            if e > 0 {
                tag = &key[s + 1..s + 1 + e];
            }
        }
    }
    (crc16_xmodem_ref(tag) as usize) % 16384
}

pub fn run_c09_keys(cli: &Cli) -> (Value, Vec<Violation>) {
    let alpha: &[u8] = &[b'{', b'}', b'a', b'b', 0x00, 0xFF];
    let maxlen = [6usize, 7, 8][cli.level().min(2)];
    let mut n = 0usize;
    let mut viol = vec![];
    let mut slots_seen = std::collections::HashSet::new();
    let mut s: Vec<u8> = vec![];
    fn rec(s: &mut Vec<u8>, alpha: &[u8], maxlen: usize, f: &mut dyn FnMut(&[u8])) {
        f(s);
        if s.len() == maxlen {
            return;
        }
        for a in alpha {
            s.push(*a);
            rec(s, alpha, maxlen, f);
            s.pop();
        }
    }
    rec(&mut s, alpha, maxlen, &mut |k: &[u8]| {
        n += 1;
        let got = undermoon::common::utils::generate_slot(k);
        let want = ref_slot(k);
        slots_seen.insert(want);
        if got != want && viol.len() < 5 {
            viol.push(Violation { key: "key-slot-differs".into(), desc: format!("key {:?}: slot {} but specification says {}", k, got, want), replay: json!({"key": k}) });
        }
        // same_slot agrees with the reference for (k, k+"x") and (k, "{"+tag+"}z")
        let mut k2 = k.to_vec();
        k2.push(b'x');
        let same = undermoon::common::utils::same_slot(vec![k, &k2[..]].into_iter());
        if same != (ref_slot(k) == ref_slot(&k2)) && viol.len() < 5 {
            viol.push(Violation { key: "same-slot-differs".into(), desc: format!("same_slot({:?},{:?}) = {}", k, k2, same), replay: json!({"key": k}) });
        }
    });
    // long keys / well-known vectors
    let known: Vec<(&[u8], usize)> = vec![(b"123456789", 12739), (b"foo", 12182), (b"{user1000}.following", 3443), (b"{user1000}.followers", 3443), (b"foo{}{bar}", 8363), (b"foo{{bar}}zap", 4015), (b"foo{bar}{zap}", 5061)];
    for (k, want) in &known {
        n += 1;
        if ref_slot(k) != *want {
            machinery_error(&format!("reference slot function fails the published vector {:?}", k));
        }
        if undermoon::common::utils::generate_slot(k) != *want {
            viol.push(Violation { key: "key-slot-differs".into(), desc: format!("published vector {:?}", k), replay: json!({"key": k}) });
        }
    }
    let cov = json!({
        "evaluations": n,
        "distinct_nontrivial": n,
        "distinct_slots_hit": slots_seen.len(),
        "rule": format!("all byte strings of length <= {} over {{'{{','}}','a','b',0x00,0xFF}} (every brace placement) + published CRC16/hash-tag vectors; each compared with a bit-wise CRC16-XMODEM and the hash-tag rule written from the Redis Cluster specification", maxlen),
        "samples": [{"key": "foo{}{bar}", "slot": ref_slot(b"foo{}{bar}")}, {"key": "{a}b}", "slot": ref_slot(b"{a}b}")}],
        "exhaustive": true,
    });
    (cov, viol)
}

