//! thrsched — real OS threads serialised by a cooperative scheduler at the cfg-guarded
//! scheduling points of undermoon (`common::verif::point` / `LockScope`).
//!
//! One thread runs at a time.  At a point the running thread parks and the explorer picks the
//! next thread from the enabled set (a thread about to take lock L is disabled while another
//! thread holds L, so real locks never block).  Exploration is a stateless DFS over schedules by
//! re-execution with a preemption bound; prefixes are distributed over worker threads (the
//! scheduler of an execution is found through a thread-local, so executions run in parallel).

use std::cell::RefCell;
use std::collections::HashMap;
use std::sync::{Arc, Condvar, Mutex};

#[derive(Clone, Debug, PartialEq)]
enum TState {
    NotStarted,
    Parked { kind: u8, id: &'static str },
    Running,
    Finished,
}

struct S {
    state: Vec<TState>,
    running: Option<usize>,
    locks: HashMap<&'static str, usize>,
    clock: u64,
    abort: bool,
    /// per thread: the clock value when it parked at a poll point (kind 4)
    polled_at: Vec<u64>,
    /// per thread: number of steps made by *other* threads (bumped by the controller)
    others_progress: Vec<u64>,
    polled_progress: Vec<u64>,
    events: HashMap<&'static str, u64>,
    wait_token: Vec<u64>,
    last_point: Vec<&'static str>,
}

pub struct Sched {
    mu: Mutex<S>,
    cv: Condvar,          // controller waits here
    tcv: Vec<Condvar>,    // thread i waits here
}

thread_local! {
    static CUR: RefCell<Option<(Arc<Sched>, usize)>> = RefCell::new(None);
}

/// The hook installed into undermoon.
pub fn hook(kind: u8, id: &'static str) {
    let cur = CUR.with(|c| c.borrow().clone());
    if let Some((s, tid)) = cur {
        s.at_point(tid, kind, id);
    }
}

/// A scheduling point in harness code.
pub fn yield_point(id: &'static str) {
    hook(0, id);
}
/// A point inside a polling loop: the thread is not runnable again until some other thread has
/// made a step (waiting is modelled as blocking, so spinning does not blow up the schedule space).
pub fn poll_point(id: &'static str) {
    hook(4, id);
}
pub fn lock_scope_enter(id: &'static str) {
    hook(1, id);
}
pub fn lock_scope_exit(id: &'static str) {
    hook(2, id);
}

/// Current value of an event counter; take it *before* checking the awaited condition.
pub fn event_token(name: &'static str) -> u64 {
    let cur = CUR.with(|c| c.borrow().clone());
    match cur {
        Some((s, _)) => *s.mu.lock().unwrap().events.get(name).unwrap_or(&0),
        None => 0,
    }
}
/// Block (in the scheduler's eyes) until the event has been signalled after `token` was taken.
pub fn wait_event_since(name: &'static str, token: u64) {
    let cur = CUR.with(|c| c.borrow().clone());
    if let Some((s, tid)) = cur {
        s.mu.lock().unwrap().wait_token[tid] = token;
        s.at_point(tid, 5, name);
    }
}
pub fn signal(name: &'static str) {
    let cur = CUR.with(|c| c.borrow().clone());
    if let Some((s, _)) = cur {
        *s.mu.lock().unwrap().events.entry(name).or_insert(0) += 1;
    }
}

/// Logical time of the current execution (number of scheduling decisions so far).
pub fn now() -> u64 {
    let cur = CUR.with(|c| c.borrow().clone());
    match cur {
        Some((s, _)) => s.mu.lock().unwrap().clock,
        None => 0,
    }
}

pub struct Aborted;

impl Sched {
    fn at_point(&self, tid: usize, kind: u8, id: &'static str) {
        let mut g = self.mu.lock().unwrap();
        if kind == 2 {
            if g.locks.get(id) == Some(&tid) {
                g.locks.remove(id);
            }
            return;
        }
        // the atomic operation announced by the previous point has happened by now
        if g.last_point[tid].contains("running_cmd.fetch") {
            *g.events.entry("running_cmd").or_insert(0) += 1;
        }
        g.last_point[tid] = id;
        g.state[tid] = TState::Parked { kind, id };
        if kind == 4 {
            g.polled_progress[tid] = g.others_progress[tid];
        }
        g.running = None;
        self.cv.notify_one();
        loop {
            if g.abort {
                drop(g);
                std::panic::resume_unwind(Box::new(Aborted));
            }
            if g.running == Some(tid) {
                break;
            }
            g = self.tcv[tid].wait(g).unwrap();
        }
        g.state[tid] = TState::Running;
        if kind == 1 {
            g.locks.insert(id, tid);
        }
    }
}

#[derive(Clone, Debug)]
pub struct Step {
    pub enabled: Vec<usize>,
    pub chosen: usize,
    pub last: Option<usize>, // thread that ran before this decision, if it is still enabled
    pub at: String,
}

#[derive(Clone, Debug, PartialEq, Eq)]
pub enum End {
    Completed,
    Deadlock(String),
    Livelock,
    Diverged(String),
}

pub struct Trace {
    pub steps: Vec<Step>,
    pub end: End,
}

impl Trace {
    pub fn choices(&self) -> Vec<usize> {
        self.steps.iter().map(|s| s.chosen).collect()
    }
}

pub type Body = Box<dyn FnOnce() + Send + 'static>;

/// Run one execution: follow `prefix`, then the default policy (keep running the same thread,
/// else the lowest enabled thread id).
pub fn run_one(prefix: &[usize], bodies: Vec<Body>, max_steps: usize) -> Trace {
    let n = bodies.len();
    let sched = Arc::new(Sched {
        mu: Mutex::new(S { state: vec![TState::NotStarted; n], running: None, locks: HashMap::new(), clock: 0, abort: false, polled_at: vec![0; n], others_progress: vec![0; n], polled_progress: vec![0; n], events: HashMap::new(), wait_token: vec![0; n], last_point: vec![""; n] }),
        cv: Condvar::new(),
        tcv: (0..n).map(|_| Condvar::new()).collect(),
    });
    let mut handles = vec![];
    for (tid, body) in bodies.into_iter().enumerate() {
        let s = sched.clone();
        handles.push(
            std::thread::Builder::new()
                .stack_size(4 << 20)
                .spawn(move || {
                    CUR.with(|c| *c.borrow_mut() = Some((s.clone(), tid)));
                    let r = std::panic::catch_unwind(std::panic::AssertUnwindSafe(|| {
                        s.at_point(tid, 0, "start");
                        body();
                    }));
                    CUR.with(|c| *c.borrow_mut() = None);
                    let mut g = s.mu.lock().unwrap();
                    if g.last_point[tid].contains("running_cmd.fetch") {
                        *g.events.entry("running_cmd").or_insert(0) += 1;
                    }
                    g.last_point[tid] = "";
                    g.state[tid] = TState::Finished;
                    // a dying thread releases its harness-level lock claims
                    g.locks.retain(|_, h| *h != tid);
                    if g.running == Some(tid) || g.running.is_none() {
                        g.running = None;
                    }
                    s.cv.notify_one();
                    drop(g);
                    match r {
                        Ok(()) => None,
                        Err(e) => {
                            if e.downcast_ref::<Aborted>().is_some() {
                                None
                            } else {
                                Some(e.downcast_ref::<String>().cloned().or_else(|| e.downcast_ref::<&str>().map(|s| s.to_string())).unwrap_or_else(|| "panic".into()))
                            }
                        }
                    }
                })
                .expect("spawn"),
        );
    }
    let mut steps: Vec<Step> = vec![];
    let mut last_run: Option<usize> = None;
    let end;
    loop {
        let mut g = sched.mu.lock().unwrap();
        // wait until nobody runs and every thread has reached its first point
        while g.running.is_some() || g.state.iter().any(|s| *s == TState::NotStarted) {
            g = sched.cv.wait(g).unwrap();
        }
        let mut enabled: Vec<usize> = (0..n)
            .filter(|t| match &g.state[*t] {
                TState::Parked { kind: 1, id } => !g.locks.contains_key(id) || g.locks.get(id) == Some(t),
                TState::Parked { kind: 4, .. } => g.others_progress[*t] > g.polled_progress[*t],
                TState::Parked { kind: 5, id } => *g.events.get(id).unwrap_or(&0) > g.wait_token[*t],
                TState::Parked { .. } => true,
                _ => false,
            })
            .collect();
        if enabled.is_empty() {
            // only pollers are left: let them look once more (their own budgets end the wait)
            enabled = (0..n).filter(|t| matches!(&g.state[*t], TState::Parked { kind: 4, .. } | TState::Parked { kind: 5, .. })).collect();
        }
        if enabled.is_empty() {
            if g.state.iter().all(|s| *s == TState::Finished) {
                end = End::Completed;
            } else {
                end = End::Deadlock(format!("{:?}", g.state));
                g.abort = true;
                for c in &sched.tcv {
                    c.notify_all();
                }
            }
            break;
        }
        if steps.len() >= max_steps {
            end = End::Livelock;
            g.abort = true;
            for c in &sched.tcv {
                c.notify_all();
            }
            break;
        }
        let i = steps.len();
        let last = last_run.filter(|t| enabled.contains(t));
        let chosen = if i < prefix.len() {
            if !enabled.contains(&prefix[i]) {
                end = End::Diverged(format!("step {}: prefix wants thread {} but enabled = {:?}", i, prefix[i], enabled));
                g.abort = true;
                for c in &sched.tcv {
                    c.notify_all();
                }
                break;
            }
            prefix[i]
        } else {
            last.unwrap_or(enabled[0])
        };
        let at = match &g.state[chosen] {
            TState::Parked { id, .. } => id.to_string(),
            _ => String::new(),
        };
        steps.push(Step { enabled, chosen, last, at });
        last_run = Some(chosen);
        g.clock += 1;
        for t in 0..n {
            if t != chosen {
                g.others_progress[t] += 1;
            }
        }
        g.running = Some(chosen);
        sched.tcv[chosen].notify_one();
    }
    let mut panics = vec![];
    for h in handles {
        if let Ok(Some(p)) = h.join() {
            panics.push(p);
        }
    }
    let end = if !panics.is_empty() && end == End::Completed { End::Deadlock(format!("thread panicked: {:?}", panics)) } else { end };
    Trace { steps, end }
}

/// Children of an explored trace: every alternative choice at every step after the prefix that
/// stays within the preemption bound.
pub fn children(trace: &Trace, prefix_len: usize, bound: usize) -> Vec<Vec<usize>> {
    let mut out = vec![];
    let mut pre = 0usize;
    let mut pre_before: Vec<usize> = vec![];
    for s in &trace.steps {
        pre_before.push(pre);
        if let Some(l) = s.last {
            if s.chosen != l {
                pre += 1;
            }
        }
    }
    for (i, s) in trace.steps.iter().enumerate() {
        if i < prefix_len {
            continue;
        }
        for alt in &s.enabled {
            if *alt == s.chosen {
                continue;
            }
            let cost = pre_before[i] + if s.last.map(|l| l != *alt).unwrap_or(false) { 1 } else { 0 };
            if cost > bound {
                continue;
            }
            let mut p: Vec<usize> = trace.steps[..i].iter().map(|x| x.chosen).collect();
            p.push(*alt);
            out.push(p);
        }
    }
    out
}

pub fn preemptions(trace: &Trace) -> usize {
    trace.steps.iter().filter(|s| s.last.map(|l| l != s.chosen).unwrap_or(false)).count()
}
