pub mod brokerlib;
pub mod det;
pub mod report;
