pub mod brokerlib;
pub mod det;
pub mod report;
pub mod sim;
pub mod c09keys;
pub mod sched;
pub mod clustersim;
